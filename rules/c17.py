"""C17 — configurations are memoised, comparable and validated the same way every time.

Decided clauses (necessary conditions, DESIGN.md §4 C17):

R1  the tables of the option list agree (key tuple / kwargs / slots / properties /
    validators; ``__eq__`` and ``__hash__`` derive from one value);
R2  every ``return`` of ``BeartypeConf.__new__`` is dominated by option validation;
R3  the memo key and the read-back ``kwargs`` are in one normal form;
R4  no unguarded hashing of raw option values;
R5  lookup, construction and store form one critical section.
"""
from __future__ import annotations

import ast

from sa.astutil import (assigns_to, const_str, dotted, inside_try_catching, inside_with,
                        kwonly_defaults, methods_of, str_subscripts)
from sa.effects import callee_def, mutates_param
from sa.flow import Flow, call_name, calls_in, walk_shallow
from sa.repo import norm, parent

CONFMAIN = 'beartype._conf.confmain'
CONFTEST = 'beartype._conf.conftest'
VALIDATOR = 'die_if_conf_kwargs_invalid'


def canon(text: str, names: dict) -> str:
    """Replace local / module variable names by role placeholders so that finding keys
    survive a rename."""
    import re
    for var, role in names.items():
        if var:
            text = re.sub(rf'\b{re.escape(var)}\b', role, text)
    return text


def run(ctx):
    repo = ctx.repo
    m = repo.mod(CONFMAIN)
    cls = m.defs.get('BeartypeConf')
    ctx.require(isinstance(cls, ast.ClassDef), 'anchor vanished: class BeartypeConf')
    meths = methods_of(cls)
    new = meths.get('__new__')
    ctx.require(new is not None, 'anchor vanished: BeartypeConf.__new__')
    W = lambda n: m.where(n)
    Q = 'BeartypeConf.__new__'

    # ---- locate the key tuple, the kwargs dict, the memo table -------------
    def _defined_as(nm, pred):
        """The module-level name `nm` (defined here or imported from a sibling module) is assigned a value satisfying pred."""
        r = repo.resolve_name(m, new, nm)
        dm = repo.modules.get(r.module) if getattr(r, 'module', None) else None
        sts = (dm.assigns.get(r.name, []) if dm is not None else []) or m.assigns.get(nm, [])
        return any(pred(getattr(s_, 'value', None)) for s_ in sts)
    subscripted = sorted({dotted(n.value) for n in ast.walk(new) if isinstance(n, ast.Subscript) and isinstance(n.value, ast.Name)})
    memo_names = [nm for nm in subscripted if _defined_as(nm, lambda v: isinstance(v, ast.Dict) and not v.keys)]
    # the table the new instance is published into must remember every configuration ever built (identity of equal
    # configurations is the property): a bounded or weak cache forgets live ones
    ctx.rule('C17.R9', 'equal configurations are one object for the life of the process: the module-level table into which '
             '__new__ stores the new instance (NAME[key] = self) is a plain, unbounded dictionary — not a bounded (LRU) or weak '
             'cache that may evict a configuration still in use, after which an equal request builds a second object')
    published = sorted({dotted(t.value) for a in walk_shallow(new) if isinstance(a, ast.Assign) for t in a.targets
                        if isinstance(t, ast.Subscript) and isinstance(t.value, ast.Name) and dotted(a.value) in ('self', 'conf', 'instance')})
    for nm in published:
        plain = _defined_as(nm, lambda v: (isinstance(v, ast.Dict) and not v.keys) or (isinstance(v, ast.Call) and dotted(v.func) == 'dict' and not v.args))
        ctx.ob('C17.R9', f'{Q}:singleton-table-unbounded:{nm}', W(new), 'the singleton table is a plain dictionary', plain,
               f'{nm} is not an empty dict display: a cache with eviction forgets configurations still in use')
    ctx.floor('C17.R9', len(published), 1, 'tables the new configuration is published into')
    ctx.require(len(memo_names) == 1, f'expected exactly one module-level memo dictionary used by {Q}, '
                                      f'found {memo_names}')
    MEMO = memo_names[0]
    key_var = None
    for n in walk_shallow(new):
        if isinstance(n, ast.Assign) and isinstance(n.targets[0], ast.Subscript) \
                and dotted(n.targets[0].value) == MEMO:
            key_var = dotted(n.targets[0].slice)
            memo_store = n
    ctx.require(key_var, f'no store into {MEMO} found in {Q}')
    key_assigns = assigns_to(new, key_var)
    lossy = [a for a in key_assigns if isinstance(a.value, ast.Call) and dotted(a.value.func) in ('hash', 'repr', 'str', 'id')]
    ctx.ob('C17.R3', f'{Q}:memo-key-lossless', W(lossy[0]) if lossy else W(memo_store),
           'the memo table is keyed by the option values themselves, not by a hash / repr / id standing in for them '
           '(unequal option sets may collide: hash(-1) == hash(-2))', not lossy,
           f'`{norm(lossy[0])[:80]}`: two different configurations with colliding keys are one object, and the second is '
           f'never validated' if lossy else '')
    ctx.require(len(key_assigns) == 1 and isinstance(key_assigns[0].value, ast.Tuple),
                f'{Q}: the memo key {key_var} is not a single tuple display')
    key_assign = key_assigns[0]
    key_elts = key_assign.value.elts
    ctx.require(all(isinstance(e, ast.Name) for e in key_elts), f'{Q}: key elements are not plain names')
    options = [e.id for e in key_elts]

    kwargs_var = None
    for n in walk_shallow(new):
        if isinstance(n, ast.Assign) and dotted(n.targets[0]) == 'self._conf_kwargs':
            kwargs_var = dotted(n.value)
            kwargs_store = n
    ctx.require(kwargs_var, f'{Q}: no assignment of self._conf_kwargs')
    roles = {key_var: '<key>', MEMO: '<memo>', kwargs_var: '<kwargs>'}
    K = lambda node: canon(norm(node), roles)
    kw_assigns = assigns_to(new, kwargs_var)
    ctx.require(len(kw_assigns) == 1, f'{Q}: {kwargs_var} assigned {len(kw_assigns)} times')
    kw_val = kw_assigns[0].value
    kw_map: dict[str, ast.AST] = {}
    if isinstance(kw_val, ast.Call) and dotted(kw_val.func) == 'dict' and not kw_val.args:
        for k in kw_val.keywords:
            ctx.require(k.arg is not None, f'{Q}: ** in kwargs construction')
            kw_map[k.arg] = k.value
    elif isinstance(kw_val, ast.Dict):
        for k, v in zip(kw_val.keys, kw_val.values):
            s = const_str(k) if k is not None else None
            ctx.require(s is not None, f'{Q}: non-literal key in kwargs construction')
            kw_map[s] = v
    elif isinstance(kw_val, ast.Call) and dotted(kw_val.func) == 'dict' and len(kw_val.args) == 1 and isinstance(kw_val.args[0], ast.Call) \
            and dotted(kw_val.args[0].func) == 'zip' and len(kw_val.args[0].args) == 2 and dotted(kw_val.args[0].args[1]) == key_var:
        # table-driven: dict(zip(<tuple of option names>, <key>)) — the names are folded, the values are the key's elements
        names_ = ctx.folder.eval_in(m, kw_val.args[0].args[0])
        ctx.require(isinstance(names_, tuple) and all(isinstance(x, str) for x in names_) and len(names_) == len(key_elts),
                    f'{Q}: dict(zip(…)) over a name table that does not fold to {len(key_elts)} option names')
        for nm_, el in zip(names_, key_elts):
            kw_map[nm_] = el
    else:
        ctx.require(False, f'{Q}: unrecognised construction of {kwargs_var}: {norm(kw_val)[:60]}')

    # ---- R1 -----------------------------------------------------------------
    ctx.rule('C17.R1', 'the option tables agree: every keyword-only parameter of __new__ is an element of '
             'the memo key (or a deprecated alias folded into one before the key is built); key elements = '
             'kwargs keys (each bound to its own value); each option has a slot assigned from its own '
             'kwargs entry and a read-only property returning that slot; each option is validated; '
             '__eq__ and __hash__ derive from the same key value')
    kwonly = kwonly_defaults(new)
    for p in kwonly:
        if p in options:
            ctx.ob('C17.R1', f'{Q}:param:{p}:in-key', W(key_assign),
                   f'option {p} is an element of the memo key', True)
            continue
        # alias: ``if p is not None: …; <option> = p`` before the key is built
        folded = None
        for n in walk_shallow(new):
            if isinstance(n, ast.Assign) and dotted(n.value) == p and dotted(n.targets[0]) in options \
                    and n.lineno < key_assign.lineno:
                folded = dotted(n.targets[0])
        ctx.ob('C17.R1', f'{Q}:param:{p}:in-key', W(new),
               f'parameter {p} is in the memo key or is folded into a key element before the key is built',
               folded is not None, f'{p} is neither in {key_var} nor assigned to one of its elements')
    for o in options:
        ctx.ob('C17.R1', f'{Q}:option:{o}:is-param', W(key_assign),
               f'key element {o} is a keyword-only parameter', o in kwonly,
               f'{o} is not a keyword-only parameter of __new__')
        v = kw_map.get(o)
        ctx.ob('C17.R1', f'{Q}:option:{o}:kwargs', W(kw_assigns[0]),
               f'kwargs["{o}"] is built from the value of option {o}',
               v is not None and dotted(v) == o,
               'missing from kwargs' if v is None else f'bound to {norm(v)}')
    for k in kw_map:
        if k not in options:
            ctx.ob('C17.R1', f'{Q}:kwargs-extra:{k}', W(kw_assigns[0]),
                   'every kwargs key is an element of the memo key', False, f'{k} is not in {key_var}')
    ctx.ob('C17.R1', f'{Q}:no-duplicates', W(key_assign), 'key elements are pairwise distinct',
           len(set(options)) == len(options), str(options))

    # stores made on behalf of __new__ by helpers receiving self (and the kwargs dictionary)
    helper_stores = []
    for c in calls_in(new):
        args = [dotted(a) for a in c.args] + [dotted(k.value) for k in c.keywords]
        if 'self' not in args:
            continue
        cd = callee_def(repo, m, c)
        if not cd:
            continue
        hm_, hf = cd
        hps = [a.arg for a in hf.args.posonlyargs + hf.args.args]
        bind = {}
        for i, a in enumerate(c.args):
            if i < len(hps):
                bind[hps[i]] = dotted(a)
        for k in c.keywords:
            if k.arg:
                bind[k.arg] = dotted(k.value)
        p_self = next((p_ for p_, v in bind.items() if v == 'self'), None)
        p_kw = next((p_ for p_, v in bind.items() if v == kwargs_var), None)
        if p_self is None:
            continue
        for a in walk_shallow(hf):
            if isinstance(a, ast.Assign) and isinstance(a.targets[0], ast.Attribute) and dotted(a.targets[0].value) == p_self:
                val = a.value
                subs = [k_ for k_, _ in str_subscripts(val, p_kw)] if (p_kw and isinstance(val, ast.Subscript)) else []
                helper_stores.append((f'self.{a.targets[0].attr}', subs[0] if subs else norm(val), a))

    # table-driven stores: `for name in <tuple of option names>: setattr(self, f'_{name}', <kwargs>[name])`
    for lp in [x for x in walk_shallow(new) if isinstance(x, ast.For) and isinstance(x.target, ast.Name)]:
        names_ = ctx.folder.eval_in(m, lp.iter)
        if not (isinstance(names_, tuple) and names_ and all(isinstance(x, str) for x in names_)):
            continue
        var = lp.target.id
        for c in [x for st_ in lp.body for x in ast.walk(st_) if isinstance(x, ast.Call) and dotted(x.func) == 'setattr' and len(x.args) == 3]:
            if dotted(c.args[0]) != 'self':
                continue
            val = c.args[2]
            from_kw = isinstance(val, ast.Subscript) and dotted(val.value) == kwargs_var and dotted(val.slice) == var
            for nm_ in names_:
                attr = ctx.folder.eval_in(m, c.args[1], {var: nm_})
                if isinstance(attr, str):
                    helper_stores.append((f'self.{attr}', nm_ if from_kw else norm(val), c))

    # slots and properties
    slot_of: dict[str, str] = {}
    for name, fn in meths.items():
        if 'property' in [dotted(d) for d in fn.decorator_list] and name in options:
            rets = [n for n in walk_shallow(fn) if isinstance(n, ast.Return)]
            tgt = dotted(rets[-1].value) if rets and rets[-1].value is not None else None
            ok = len(rets) == 1 and tgt is not None and tgt.startswith('self.')
            if ok:
                slot_of[name] = tgt
            ctx.ob('C17.R1', f'BeartypeConf.{name}:property-returns-slot', W(fn),
                   f'property {name} returns one slot of self', ok, f'returns {norm(rets[-1].value) if rets else None}')
    for o in options:
        if o not in slot_of:
            ctx.ob('C17.R1', f'BeartypeConf.{o}:property-exists', W(cls),
                   f'option {o} has a read-only property', False, 'no such property')
            continue
        slot = slot_of[o]
        stores = assigns_to(new, slot)
        srcs = []
        # slots may also be assigned by a helper that __new__ hands `self` and the kwargs dictionary to
        for hs_slot, hs_src, hs_node in helper_stores:
            if hs_slot == slot:
                stores = stores + [hs_node]
                srcs.append(hs_src)
        for s in [x for x in stores if x not in [n_ for _, _, n_ in helper_stores]]:
            val = s.value
            subs = [k for k, _ in str_subscripts(val, kwargs_var)] if isinstance(val, ast.Subscript) else []
            if subs:
                srcs.append(subs[0])
            elif isinstance(val, ast.Name):
                srcs.append(val.id)
            elif isinstance(val, ast.IfExp) and all(
                    (isinstance(b, ast.Name)) or (isinstance(b, ast.Constant) and b.value is None) for b in (val.body, val.orelse)):
                # `opt if <test> else None` (or the reverse): the option, or its "unset" default
                srcs.extend(b.id for b in (val.body, val.orelse) if isinstance(b, ast.Name))
            else:
                srcs.append(norm(val))
        ok = bool(stores) and bool(srcs) and all(s == o for s in srcs)
        ctx.ob('C17.R1', f'{Q}:slot:{slot}:source', W(stores[0]) if stores else W(new),
               f'{slot} (returned by property {o}) is assigned from the value of option {o}',
               ok, f'assigned from {srcs}' if stores else 'never assigned in __new__')

    # validators
    tm = repo.mod(CONFTEST)
    validated: set[str] = set()
    vfuncs = []
    for c in calls_in(new):
        if call_name(c) in (VALIDATOR, 'default_conf_kwargs'):
            cd = callee_def(repo, m, c)
            if cd:
                vfuncs.append(cd)
    ctx.require(any(f.name == VALIDATOR for _, f in vfuncs),
                f'anchor vanished: {Q} no longer calls {VALIDATOR}')
    # an option counts as validated when some `raise` of a validator is directly conditioned on it: the test of
    # the innermost `if` / `elif` enclosing the raise mentions conf_kwargs['<option>'] (or a local assigned from
    # it, or conf_kwargs[<loop variable>] of a loop over a folded tuple of option names).  Merely *reading* an
    # option (e.g. to default another one) is not validation.
    # … including the private helpers a validator hands the options dictionary to (a validator split in two)
    work = [(vm, vf, vf.args.args[0].arg, 0) for vm, vf in vfuncs]
    seen_v = {id(vf) for _, vf in vfuncs}
    expanded = []
    while work:
        vm, vf, p0, depth = work.pop(0)
        expanded.append((vm, vf, p0))
        if depth >= 3:
            continue
        for c in calls_in(vf):
            pos = [i for i, a in enumerate(c.args) if dotted(a) == p0]
            kws = [k.arg for k in c.keywords if dotted(k.value) == p0 and k.arg]
            if not pos and not kws:
                continue
            cd = callee_def(repo, vm, c)
            if not cd or id(cd[1]) in seen_v:
                continue
            hm, hf = cd
            names = [a.arg for a in hf.args.posonlyargs + hf.args.args]
            pn = kws[0] if kws else (names[pos[0]] if pos[0] < len(names) else None)
            if pn:
                seen_v.add(id(hf))
                work.append((hm, hf, pn, depth + 1))
    by_value = []
    for vm, vf, p0 in expanded:
        alias = {}
        for a in ast.walk(vf):
            if isinstance(a, ast.Assign) and isinstance(a.targets[0], ast.Name) and isinstance(a.value, ast.Subscript) \
                    and dotted(a.value.value) == p0 and isinstance(a.value.slice, ast.Constant):
                alias[a.targets[0].id] = a.value.slice.value
        loops = {}
        for loop in [n for n in ast.walk(vf) if isinstance(n, ast.For)]:
            it = ctx.folder.eval_in(vm, loop.iter)
            if isinstance(it, tuple) and all(isinstance(x, str) for x in it) and isinstance(loop.target, ast.Name):
                loops[loop.target.id] = it
        for r in [n for n in ast.walk(vf) if isinstance(n, ast.Raise)]:
            child, p_ = r, getattr(r, '_parent', None)
            test = None
            while p_ is not None and p_ is not vf:
                if isinstance(p_, ast.If) and any(child is x for x in p_.body):
                    test = p_.test
                    break
                child, p_ = p_, getattr(p_, '_parent', None)
            if test is None:
                continue
            for cmp_ in [x for x in ast.walk(test) if isinstance(x, ast.Compare)]:
                sides = [cmp_.left] + list(cmp_.comparators)
                on_option = any((isinstance(e, ast.Subscript) and dotted(e.value) == p0) or (isinstance(e, ast.Name) and e.id in alias) for e in sides)
                if on_option and any(isinstance(o_, (ast.Eq, ast.NotEq, ast.In, ast.NotIn)) for o_ in cmp_.ops):
                    by_value.append((vm, cmp_))
            for n_ in ast.walk(test):
                if isinstance(n_, ast.Subscript) and dotted(n_.value) == p0:
                    if isinstance(n_.slice, ast.Constant) and isinstance(n_.slice.value, str):
                        validated.add(n_.slice.value)
                    elif isinstance(n_.slice, ast.Name) and n_.slice.id in loops:
                        validated.update(loops[n_.slice.id])
                elif isinstance(n_, ast.Name) and n_.id in alias:
                    validated.add(alias[n_.id])
    ctx.ob('C17.R1', 'validation:by-type-not-by-value', by_value[0][0].where(by_value[0][1]) if by_value else tm.where(tm.defs.get(VALIDATOR)),
           'option values are validated by their type (isinstance / identity), never by == / in against sample values: the memo '
           'table is keyed by equality, so a look-alike that passes (0 == False, 1.0 == True) is stored and later handed out for the '
           'genuine value', not by_value, f'`{norm(by_value[0][1])[:80]}`' if by_value else '')
    for o in options:
        ctx.ob('C17.R1', f'validation:{o}', tm.where(tm.defs.get(VALIDATOR)),
               f'option {o} is examined by {VALIDATOR} / default_conf_kwargs', o in validated,
               'no validator reads it')

    # __eq__ / __hash__
    eq, hs = meths.get('__eq__'), meths.get('__hash__')
    ctx.require(eq is not None and hs is not None, 'anchor vanished: BeartypeConf.__eq__/__hash__')
    eq_fields = {n.attr for n in ast.walk(eq) if isinstance(n, ast.Attribute) and isinstance(n.value, ast.Name)
                 and n.value.id in ('self', 'other') and n.attr != '__class__'}
    hash_fields = {n.attr for n in ast.walk(hs) if isinstance(n, ast.Attribute) and dotted(n.value) == 'self'}
    src = {}
    for fld in eq_fields | hash_fields:
        st = assigns_to(new, f'self.{fld}')
        src[fld] = [norm(s.value) for s in st]
    eq_src = {x.replace('hash(', '').rstrip(')') if x.startswith('hash(') else x for f in eq_fields for x in src[f]}
    hash_src = {x.replace('hash(', '').rstrip(')') if x.startswith('hash(') else x for f in hash_fields for x in src[f]}
    ctx.ob('C17.R1', 'BeartypeConf.__eq__/__hash__:same-key', W(eq),
           '__eq__ compares and __hash__ hashes the same value (the memo key)',
           bool(eq_src) and eq_src == hash_src == {key_var},
           f'__eq__ reads {sorted(eq_fields)} <- {sorted(eq_src)}; __hash__ reads {sorted(hash_fields)} <- {sorted(hash_src)}')
    ctx.floor('C17.R1', len(kwonly), 17, 'keyword-only parameters of __new__')

    # ---- R2 -----------------------------------------------------------------
    ctx.rule('C17.R2', f'must-pass-through: every path from the entry of __new__ to a return passes a call '
             f'of {VALIDATOR} (an invalid value must not be answered from the memo table)')

    def gen(node):
        return ['validated'] if any(call_name(c) == VALIDATOR for c in calls_in(node)) else []
    rets = []
    Flow(gen, mode='must', on_exit=lambda n, k, s: rets.append((n, s)) if k in ('return', 'fallthrough') else None).run(new)
    for n, s in rets:
        if n is new:
            continue
        ctx.ob('C17.R2', f'{Q}:{K(n)}', W(n), f'the return is dominated by {VALIDATOR}()', 'validated' in s,
               'reachable without validation (memo hit answers before the options are validated)')
    ctx.floor('C17.R2', len(rets), 2, 'return statements')

    # ---- R3 -----------------------------------------------------------------
    ctx.rule('C17.R3', 'between building the memo key and storing the read-back kwargs no callee may mutate '
             'the kwargs dictionary, unless the instance is also registered under a key rebuilt from the '
             'normalised values (otherwise BeartypeConf(**conf.kwargs) is not conf)')
    rebuilt = False
    for n in walk_shallow(new):
        if isinstance(n, ast.Assign) and isinstance(n.targets[0], ast.Subscript) and dotted(n.targets[0].value) == MEMO \
                and n is not memo_store:
            if kwargs_var in {x.id for x in ast.walk(n.targets[0].slice) if isinstance(x, ast.Name)}:
                rebuilt = True
    n_mut = 0
    for c in calls_in(new):
        if not (key_assign.lineno < c.lineno <= kwargs_store.lineno):
            continue
        if not any(dotted(a) == kwargs_var for a in c.args) and not any(dotted(k.value) == kwargs_var for k in c.keywords):
            continue
        cd = callee_def(repo, m, c)
        if cd is None:
            ctx.ob('C17.R3', f'{Q}:callee:{norm(c.func)}', W(c), 'callee receiving the kwargs is resolvable', False,
                   'unresolved callee receives the kwargs dictionary')
            continue
        cm, cf = cd
        from sa.effects import arg_binding
        par = [p for p, v in arg_binding(cf, c).items() if dotted(v) == kwargs_var][0]
        why = mutates_param(repo, cm, cf, par)
        n_mut += 1
        ctx.ob('C17.R3', f'{Q}:mutator:{cf.name}', W(c),
               f'{cf.name}({kwargs_var}) leaves the dictionary as keyed (or the normalised key is registered too)',
               not why or rebuilt, '; '.join(why[:2]))
    ctx.floor('C17.R3', n_mut, 2, 'callees receiving the kwargs dictionary')

    # ---- R4 -----------------------------------------------------------------
    ctx.rule('C17.R4', 'the first hashing of the raw option tuple (membership test / lookup / hash()) on every '
             'path is guarded by try/except TypeError, so an unhashable option value cannot escape as a '
             'bare TypeError')
    sites = []
    for n in walk_shallow(new):
        if isinstance(n, ast.Compare) and any(isinstance(op, (ast.In, ast.NotIn)) for op in n.ops) \
                and dotted(n.left) == key_var:
            sites.append(n)
        elif isinstance(n, ast.Subscript) and dotted(n.slice) == key_var and dotted(n.value) == MEMO:
            sites.append(n)
        elif isinstance(n, ast.Call) and ((dotted(n.func) == 'hash' and n.args and dotted(n.args[0]) == key_var)
                                          or (isinstance(n.func, ast.Attribute) and n.func.attr in ('get', 'setdefault', 'pop')
                                              and dotted(n.func.value) == MEMO and n.args and dotted(n.args[0]) == key_var)):
            sites.append(n)
    site_ids = {id(s): s for s in sites}

    def gen_h(node):
        return ['hashed'] if any(id(x) in site_ids for x in ast.walk(node)) else []
    first_sites = []

    def on_stmt(st, s):
        if 'hashed' in s:
            return
        head = st
        if isinstance(st, (ast.If, ast.While)):
            head = st.test
        elif isinstance(st, (ast.For, ast.With, ast.Try, ast.FunctionDef, ast.ClassDef)):
            return
        for x in ast.walk(head):
            if id(x) in site_ids:
                first_sites.append(x)
                break
    Flow(gen_h, mode='must', on_stmt=on_stmt).run(new)
    ctx.require(first_sites, f'{Q}: no hashing site of {key_var} found')
    seen = set()
    for x in first_sites:
        if id(x) in seen:
            continue
        seen.add(id(x))
        ctx.ob('C17.R4', f'{Q}:hash:{K(x)}', W(x),
               'first hashing of the raw option tuple is inside try/except TypeError',
               inside_try_catching(x, {'TypeError'}, stop=new),
               'unguarded: an unhashable option value (e.g. a list of package names, which the validator '
               'accepts) raises a bare TypeError')
    ctx.floor('C17.R4', len(sites), 3, 'hashing sites of the key')

    # ---- R5 -----------------------------------------------------------------
    ctx.rule('C17.R5', 'every access of the memo table in __new__ is inside one and the same `with <lock>` block')
    with_names = sorted({dotted(it.context_expr) for w_ in ast.walk(new) if isinstance(w_, ast.With) for it in w_.items
                         if isinstance(it.context_expr, ast.Name)})
    locks = [nm for nm in with_names
             if _defined_as(nm, lambda v: isinstance(v, ast.Call) and (dotted(v.func) or '').split('.')[-1] in ('Lock', 'RLock'))]
    ctx.require(locks, f'{CONFMAIN}: no module-level lock')
    withs = set()
    acc = [n for n in walk_shallow(new) if isinstance(n, ast.Name) and n.id == MEMO]
    for n in acc:
        w = None
        p = parent(n)
        while p is not None and p is not new:
            if isinstance(p, ast.With) and any(dotted(it.context_expr) in locks for it in p.items):
                w = p
            p = parent(p)
        withs.add(id(w) if w is not None else None)
        ctx.ob('C17.R5', f'{Q}:locked:{K(enclosing_expr(n))}', W(n),
               f'access of {MEMO} is inside `with {locks[0]}`', w is not None, 'outside the lock')
    ctx.ob('C17.R5', f'{Q}:one-critical-section', W(new), 'lookup and store share one critical section',
           len(withs) == 1 and None not in withs, f'{len(withs)} distinct regions')
    ctx.floor('C17.R5', len(acc), 3, f'accesses of {MEMO}')
    _publication_and_key_hash(ctx, MEMO, Q)


def enclosing_expr(n):
    p = parent(n)
    while p is not None and not isinstance(p, (ast.stmt,)) and not isinstance(parent(p), ast.stmt):
        p = parent(p)
    return p if p is not None and not isinstance(p, ast.stmt) else (parent(n) or n)


def _publication_and_key_hash(ctx, MEMO, Q):
    """R6: nothing that can still fail runs after the configuration was published in the memo table.
    R7: the hash of the frozen dictionary that is part of the key is order-insensitive like its equality."""
    repo = ctx.repo
    m = repo.mod(CONFMAIN)
    new = repo.find_def(CONFMAIN, 'BeartypeConf.__new__')
    ctx.rule('C17.R6', 'publication is the last fallible step: after the statement storing the new configuration into the '
             'memo table, __new__ calls no function of beartype._conf that can raise (transitively, through the '
             'resolved call graph) — otherwise a half-initialised configuration stays memoised when that call fails '
             'and every later request for equal options returns it')
    from sa.callgraph import CallGraph
    cg = CallGraph(repo, prefixes=('beartype._conf',))
    stores = [a for a in ast.walk(new) if isinstance(a, ast.Assign) and any(
        isinstance(t, ast.Subscript) and dotted(t.value) == MEMO for t in a.targets)]
    ctx.require(len(stores) == 1, f'{Q}: expected one store into {MEMO}')
    st = stores[0]
    blk = parent(st).body
    after = blk[blk.index(st) + 1:]

    def can_raise(q, seen=()):
        if q in seen or q not in cg.funcs:
            return None
        mod, fn = cg.funcs[q]
        for r in walk_shallow(fn):
            if isinstance(r, ast.Raise):
                return q
        for _, callee in cg.calls.get(q, []):
            hit = can_raise(callee, seen + (q,)) if callee else None
            if hit:
                return hit
        return None
    bad = []
    for s_ in after:
        for c in ast.walk(s_):
            if isinstance(c, ast.Call):
                r = repo.resolve_expr(m, c.func)
                if r.kind in ('def', 'func') and (r.module or '').startswith('beartype._conf'):
                    hit = can_raise(f'{r.module}.{r.name}')
                    if hit:
                        bad.append((c, hit))
    ctx.ob('C17.R6', f'{Q}:no-fallible-step-after-publication', m.where(bad[0][0]) if bad else m.where(st),
           'no call that can raise follows the memo store', not bad,
           f'`{norm(bad[0][0])[:60]}` (raises in {bad[0][1].split(".")[-1]}) runs after `{norm(st)[:60]}`' if bad else '')

    ctx.rule('C17.R7', 'FrozenDict — the type of the hint_overrides component of the key — inherits the '
             'order-insensitive equality of dict, so its hash must be computed from an order-insensitive aggregate of '
             'its items (frozenset(self.items())); a tuple / list of the items makes equal dictionaries written in '
             'different orders hash differently (two configurations that compare equal but are distinct memo entries)')
    fm = repo.mod('beartype._util.kind.maplike.utilmapfrozen')
    fcls = repo.find_def(fm.name, 'FrozenDict')
    # the hash is precomputed wherever self._hash is assigned from a hash(...) call (today: __init__)
    # (directly, or through a local: `h = hash(…)` … `self._hash = h`)
    hashes = []
    for f in [x for x in ast.walk(fcls) if isinstance(x, ast.FunctionDef)]:
        for a in ast.walk(f):
            if not (isinstance(a, ast.Assign) and norm(a.targets[0]) == 'self._hash'):
                continue
            v = a.value
            if isinstance(v, ast.Name):
                defs_ = [x.value for x in ast.walk(f) if isinstance(x, ast.Assign) and dotted(x.targets[0]) == v.id]
                v = next((d_ for d_ in defs_ if isinstance(d_, ast.Call) and dotted(d_.func) == 'hash'), v)
            if isinstance(v, ast.Call) and dotted(v.func) == 'hash' and v.args:
                hashes.append(v)
    hf = next((f for f in ast.walk(fcls) if isinstance(f, ast.FunctionDef) and any(h in list(ast.walk(f)) for h in hashes)), fcls)
    ctx.require(hashes, 'FrozenDict: no `self._hash = hash(…)` found')
    srcs = []
    for c in hashes:
        a = c.args[0]
        if isinstance(a, ast.Name):
            d = [x for x in ast.walk(hf) if isinstance(x, ast.Assign) and dotted(x.targets[0]) == a.id]
            a = d[-1].value if d else a
        srcs.append(norm(a))
    ok = all(s_.startswith('frozenset(') and 'items()' in s_ for s_ in srcs)
    order = [s_ for s_ in srcs if s_.startswith(('tuple(', 'list(')) or s_.startswith('(')]
    if not ok and not order:
        ctx.require(False, f'FrozenDict.__hash__: unrecognised hash source {srcs}')
    ctx.ob('C17.R7', 'FrozenDict.__hash__:order-insensitive', fm.where(hashes[0]),
           'the hash is computed from frozenset(self.items())', ok, f'hash source: {srcs}')
    eqs = [f for f in ast.walk(fcls) if isinstance(f, ast.FunctionDef) and f.name == '__eq__']
    ctx.ob('C17.R7', 'FrozenDict.__eq__:inherited', fm.where(eqs[0]) if eqs else fm.where(hf),
           'equality is the inherited dict equality (what the hash rule above is stated against)', not eqs, 'FrozenDict overrides __eq__')

    # ---- R8 ----------------------------------------------------------------------
    # an invalid combination of is_pep484_tower and hint_overrides is rejected uniformly: the tower merge, interpreted
    # over every combination of {absent, restating the tower, conflicting} user entries for float × complex
    # (shared with C18.R3)
    ctx.rule('C17.R8', 'is_pep484_tower with a conflicting user override for float or for complex is rejected with '
             'BeartypeConfParamException in every combination with the other entry (absent / restating the tower / '
             'conflicting) and with unrelated entries; non-conflicting combinations yield the user\'s overrides plus the tower')
    from .c18 import _tower_merge
    om = repo.mod('beartype._conf._confoverrides')
    sf = om.defs.get('sanify_conf_kwargs_is_pep484_tower')
    ctx.require(sf is not None, 'anchor vanished: sanify_conf_kwargs_is_pep484_tower')
    _tower_merge(ctx, om, sf, 'C17.R8')
