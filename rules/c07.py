"""C07 — string and postponed annotations are checked like evaluated ones.

What a string denotes is decided at run time (eval against scopes assembled from module globals, class stacks and live
frames); the *equality of verdicts* between the string and the evaluated spelling of a program is therefore not decided
here.  Decided are the structural clauses of the property whose truth is in the code of the resolver itself, each a
necessary condition (breaking it breaks the stated behaviour for some program):

R1  unresolvable names surface as forward-reference exceptions: every exception class the forward-reference package raises,
    defaults or hands on belongs to the forward-reference family of beartype.roar;
R2  "usable once defined, without re-decoration": the proxy's resolution property, interpreted with a scripted resolver —
    a failure is not remembered, a success is, a referent that is no hint or the proxy itself is rejected and forgotten;
R3  what the proxy resolves a name to: the module attribute if defined, else the local of the still-running enclosing
    callable; undefined in both raises a forward-reference exception (interpreted over the abstract cases);
R4  scope precedence of the string evaluator: class body over enclosing function locals over module globals (over
    builtins), the classes being decorated visible by name, one scope per decorated callable (interpreted);
R5  a name that is not defined yet never fails the decoration: the scope's __missing__ hands out a proxy bound to that
    name, the module and the enclosing callable, and keeps it (interpreted);
R6  every route that can be handed a string resolves it before anything else looks at the hint, and evaluates it inside a
    handler that converts whatever the evaluation raises;
R7  the proxy's verdict is the referent's verdict: isinstance() against a proxy answers what isinstance() / is_bearable()
    answer for the referent and the very object, issubclass() likewise; the referent-type memo does not remember failures;
R8  proxies keep what they need to be resolved later: the proxy factories store the name, the module, the message prefix
    and the enclosing callable they are given, and a proxy derived from a proxy by subscription ('Box[int]') inherits all
    four and records its arguments (interpreted end to end, only the class constructor stubbed).
"""
from __future__ import annotations

import ast

from sa.astutil import dotted, inside_try_catching, params_of
from sa.flow import walk_shallow
from sa.repo import norm, qualname_of

FWD = 'beartype._check.forward'
META = 'beartype._check.forward.reference._cls.fwdrefmeta'
SCOPECLS = 'beartype._check.forward.scope.fwdscopecls'
SCOPEMAKE = 'beartype._check.forward.scope.fwdscopemake'
RESOLVE = 'beartype._check.forward.fwdresolve'
ROAR = 'beartype.roar._roarexc'

#: builtin exceptions the forward package raises because a Python protocol demands that very class (one reason each)
PROTOCOL_RAISES = {
    ('fwdrefmeta', 'BeartypeForwardRefMeta.__getattr__', 'AttributeError'):
        'hasattr() / getattr() on an unresolved proxy must see AttributeError',
    ('fwdscopecls', 'BeartypeForwardScope.__missing__', 'KeyError'):
        'a dictionary lookup by third-party code (not an eval by beartype) must see KeyError',
}


def _name(x):
    return getattr(x, 'name', x)


def run(ctx):
    _family(ctx)
    _proxy_memo(ctx)
    _proxy_resolver(ctx)
    _scope_precedence(ctx)
    _missing(ctx)
    _routes(ctx)
    _proxy_verdict(ctx)
    _derived_proxies(ctx)


# ----------------------------------------------------------------------------------------------------------------- R1
def _forward_family(ctx):
    """Names of the exception classes of beartype.roar that derive from the forward-reference mixin (found by role: the
    private class both the decoration-time and the call-time forward-reference exception derive from)."""
    m = ctx.repo.mod(ROAR)
    classes = {c.name: c for c in m.tree.body if isinstance(c, ast.ClassDef)}
    bases = {n: [dotted(b) for b in c.bases] for n, c in classes.items()}

    def ancestors(n, seen=None):
        seen = seen if seen is not None else set()
        for b in bases.get(n, []):
            if b not in seen:
                seen.add(b)
                ancestors(b, seen)
        return seen
    roots = [n for n in classes if 'ForwardRef' in n and n.startswith('_') and n.endswith('Mixin')]
    ctx.require(len(roots) == 1, f'anchor vanished: the forward-reference exception mixin of beartype.roar ({roots})')
    fam = {n for n in classes if roots[0] in ancestors(n)}
    ctx.require(len(fam) >= 4, f'forward-reference exception family too small: {sorted(fam)}')
    # every member must also be a beartype exception
    for n in sorted(fam):
        ctx.require('BeartypeException' in ancestors(n), f'{n} is not a BeartypeException')
    return fam


def _family(ctx):
    repo = ctx.repo
    fam = _forward_family(ctx)
    ctx.rule('C07.R1', 'a name that cannot be resolved raises a beartype forward-reference exception: in the forward-reference '
             'package (beartype/_check/forward) every default of an exception_cls parameter, every exception_cls= argument and '
             'every class raised directly is a member of the forward-reference family of beartype.roar (the classes deriving '
             'from its forward-reference mixin), a forwarded exception_cls parameter, or one of the protocol-mandated builtin '
             'raises of the reviewed table')
    n = 0
    for mn, m in sorted(repo.modules.items()):
        if not mn.startswith(FWD):
            continue
        short = mn.rsplit('.', 1)[-1]
        for fn in [x for x in ast.walk(m.tree) if isinstance(x, (ast.FunctionDef, ast.AsyncFunctionDef))]:
            q = qualname_of(fn)
            a = fn.args
            pos = a.posonlyargs + a.args
            pairs = list(zip(pos[len(pos) - len(a.defaults):], a.defaults)) + [(p, d) for p, d in zip(a.kwonlyargs, a.kw_defaults) if d is not None]
            for p, d in pairs:
                if p.arg != 'exception_cls':
                    continue
                n += 1
                ctx.ob('C07.R1', f'{short}.{q}:default', m.where(d), 'the default exception class is a forward-reference exception',
                       dotted(d) in fam, f'default is {norm(d)}')
            for x in walk_shallow(fn):
                if isinstance(x, ast.Call):
                    for k in x.keywords:
                        if k.arg == 'exception_cls' and not (isinstance(k.value, ast.Name) and k.value.id == 'exception_cls'):
                            n += 1
                            ctx.ob('C07.R1', f'{short}.{q}:argument:{norm(x.func)}', m.where(k.value),
                                   'the exception class handed on is a forward-reference exception', dotted(k.value) in fam,
                                   f'{norm(x.func)}(exception_cls={norm(k.value)})')
                elif isinstance(x, ast.Raise) and x.exc is not None:
                    e = x.exc.func if isinstance(x.exc, ast.Call) else x.exc
                    nm = dotted(e)
                    if nm == 'exception_cls' or (isinstance(x.exc, ast.Name) and not nm[:1].isupper()):
                        continue        # forwarded parameter / re-raise of a caught object
                    n += 1
                    ok = nm in fam or (short, q, nm) in PROTOCOL_RAISES
                    ctx.ob('C07.R1', f'{short}.{q}:raise:{nm}', m.where(x), 'the class raised is a forward-reference exception', ok,
                           f'raises {nm}')
    ctx.floor('C07.R1', n, 15, 'exception classes named in the forward-reference package')


def _proxy_resolver_name(ctx, F):
    """The proxy's own resolver, by role: the module-level function of the metaclass module that imports the proxied attribute
    from the proxied module (calls import_module_attr_or_sentinel / import_module_attr)."""
    from sa.fold import FuncVal
    env = F.module_env(META)
    cands = [k for k, v in env.items() if isinstance(v, FuncVal) and v.module == META and '.' not in v.qualname and any(
        isinstance(x, ast.Name) and x.id in ('import_module_attr_or_sentinel', 'import_module_attr') for x in ast.walk(v.node))]
    ctx.require(len(cands) == 1, f'anchor vanished: the resolver of the forward-reference proxy (candidates {cands})')
    return cands[0]


# ----------------------------------------------------------------------------------------------------------------- R2
class _Engine:
    """The shared interpreter with the stubs of one rule installed, removed on exit."""

    def __init__(self, ctx):
        from . import _gen
        self.F = _gen.engines(ctx)[0].f
        self._stubs = {}
        self._try = None

    def __enter__(self):
        self._try = getattr(self.F, 'faithful_try', False)
        self.F.faithful_try = True
        self._ih = self.F.isinstance_hook
        return self

    def stub(self, env, name, fn, ctx):
        from sa.fold import FuncVal
        v = env.get(name)
        ctx.require(isinstance(v, FuncVal), f'anchor vanished: the callable {name} the analysed function relies on')
        self._stubs.setdefault(v.qual, self.F.stubs.get(v.qual))
        self.F.stubs[v.qual] = lambda ev, a, k: fn(*a, **k)

    def __exit__(self, *exc):
        for q, old in self._stubs.items():
            if old is None:
                self.F.stubs.pop(q, None)
            else:
                self.F.stubs[q] = old
        self.F.faithful_try = self._try
        self.F.isinstance_hook = self._ih
        return False


def _proxy_memo(ctx):
    from sa.fold import AObj, DelegatingAObj, FuncVal, _Abort, _Raise, _call_function
    fam = _forward_family(ctx)
    mm = ctx.repo.mod(META)
    ctx.rule('C07.R2', 'a name becomes usable once it is defined, without re-decoration: the resolution property of the '
             'forward-reference proxy (__resolved_hint_beartype__), interpreted with a scripted resolver over the histories '
             '{undefined, then defined, then asked again}, {resolves to something that is no hint, then defined} and {resolves '
             'to the proxy itself, then defined}: a failed resolution raises a forward-reference exception and leaves nothing '
             'in the memo table, so the next check resolves afresh; a successful one is returned and not resolved again')
    with _Engine(ctx) as E:
        F = E.F
        env = F.module_env(META)
        cls = F.const(META, 'BeartypeForwardRefMeta')
        fn = cls.find('__resolved_hint_beartype__')
        ctx.require(isinstance(fn, FuncVal), 'anchor vanished: BeartypeForwardRefMeta.__resolved_hint_beartype__')
        # the memo table: the module-level dictionary the getter's helpers store into (by role: the dict whose bound .get the getter calls)
        tables = [k for k, v in env.items() if isinstance(v, dict) and k.startswith('_') and 'hint' in k]
        ctx.require(len(tables) == 1, f'anchor vanished: the referent-hint memo table of the proxy metaclass ({tables})')
        table = env[tables[0]]

        class _Proxy(DelegatingAObj):
            _real_class = cls

            def __init__(self):
                d = self.__dict__
                d['__hint_pep749_ref_beartype__'] = None
                d['__exception_prefix_beartype__'] = ''
                d['__scope_name_beartype__'] = 'mod'
                d['__hint_name_beartype__'] = 'Later'
                d['__func_local_parent_codeobj_weakref_beartype__'] = None
                d['__name__'] = 'LaterProxy'

            def __repr__(self):
                return '<proxy of "Later">'
        calls = []
        script = {'mode': None}

        def resolver(c, *a, **k):
            calls.append(c)
            if script['mode'] == 'undefined':
                raise _Raise('BeartypeCallHintPep484ForwardRefStrException', 'the scripted resolver: name undefined')
            return c if script['mode'] == 'self' else script['mode']

        def die(*a, **k):
            raise _Raise(_name(k.get('exception_cls', 'BeartypeDecorHintNonpepException')), 'die_unless_hint')
        E.stub(env, _proxy_resolver_name(ctx, F), resolver, ctx)
        E.stub(env, 'is_hint', lambda h, *a, **k: h != 'NOT-A-HINT', ctx)
        E.stub(env, 'die_unless_hint', die, ctx)
        n = 0
        for hist_name, history in (('undefined-then-defined', ['undefined', 'REFERENT', 'REFERENT']),
                                   ('not-a-hint-then-defined', ['NOT-A-HINT', 'REFERENT']),
                                   ('self-reference-then-defined', ['self', 'REFERENT']),
                                   ('defined-at-once', ['REFERENT', 'REFERENT'])):
            table.clear()
            del calls[:]
            p = _Proxy()
            for step, mode in enumerate(history):
                script['mode'] = mode
                before = len(calls)
                out = raised = None
                try:
                    out = _call_function(F, fn, [p], {}, 1)
                except _Raise as ex:
                    raised = _name(ex.what)
                except _Abort as ex:
                    ctx.require(False, f'cannot interpret {fn.qual}: {ex}')
                n += 1
                key = f'proxy-memo:{hist_name}:step{step + 1}:{mode.lower()}'
                if mode == 'REFERENT':
                    first = step == 0 or history[step - 1] != 'REFERENT'
                    ctx.ob('C07.R2', key, mm.where(fn.node), 'a defined name resolves to its referent'
                           + ('' if first else ' without consulting the resolver again'),
                           raised is None and out == 'REFERENT' and (len(calls) - before == (1 if first else 0)),
                           f'evaluates to {out!r} / raises {raised!r}; resolver called {len(calls) - before} time(s); memo {table!r}')
                else:
                    ctx.ob('C07.R2', key, mm.where(fn.node), 'a failed resolution raises a forward-reference exception and is not remembered',
                           raised in fam and p not in table,
                           f'evaluates to {out!r} / raises {raised!r}; memo table afterwards {table!r}')
        table.clear()
    ctx.floor('C07.R2', n, 9, 'resolution steps')


# ----------------------------------------------------------------------------------------------------------------- R3
def _proxy_resolver(ctx):
    from sa.fold import AObj, DelegatingAObj, FuncVal, _Abort, _Raise, _call_function
    fam = _forward_family(ctx)
    mm = ctx.repo.mod(META)
    ctx.rule('C07.R3', 'what a forward-reference proxy resolves its name to, decided by interpreting the proxy\'s resolver over '
             '{module attribute defined or not} × {no enclosing callable, enclosing callable still running with / without the '
             'local, enclosing callable gone}: the module attribute if defined; else the local of the still-running enclosing '
             'callable; a name defined in neither raises a forward-reference exception (never a NameError / AttributeError / '
             'KeyError, never a silent default)')
    with _Engine(ctx) as E:
        F = E.F
        env = F.module_env(META)
        fn = env.get(_proxy_resolver_name(ctx, F))
        sentinel = env.get('SENTINEL')
        ctx.require(sentinel is not None, 'anchor vanished: SENTINEL in the proxy metaclass module')
        meta = F.const(META, 'BeartypeForwardRefMeta')
        state = {}

        class _Proxy(DelegatingAObj):
            _real_class = meta

            def __init__(self, weak):
                d = self.__dict__
                d['__scope_name_beartype__'] = 'mod'
                d['__hint_name_beartype__'] = 'Later'
                d['__exception_prefix_beartype__'] = ''
                d['__func_local_parent_codeobj_weakref_beartype__'] = weak
                d['__hint_pep749_ref_beartype__'] = None
                d['__name__'] = 'LaterProxy'

        class _Weak(AObj):
            def __init__(self, alive):
                self.alive = alive

            def __call__(self):
                return 'CODE' if self.alive else None

        def imp_or_sentinel(*a, **k):
            ctx.require(k.get('attr_name', a[0] if a else None) == 'Later' and k.get('module_name') == 'mod',
                        f'the resolver imports {k!r}, not the proxied name from the proxied module')
            return 'GLOBAL-REFERENT' if state['global'] else sentinel

        def imp(*a, **k):
            if state['global']:
                return 'GLOBAL-REFERENT'
            raise _Raise(_name(k.get('exception_cls', 'ModuleNotFoundError')), 'import_module_attr: undefined')
        E.stub(env, 'import_module_attr_or_sentinel', imp_or_sentinel, ctx)
        E.stub(env, 'import_module_attr', imp, ctx)
        E.stub(env, 'find_frame_codeobject_or_none', lambda *a, **k: ('FRAME' if state['frame'] else None), ctx)
        E.stub(env, 'get_frame_locals', lambda *a, **k: ({'Later': 'LOCAL-REFERENT'} if state['local'] else {'Other': 1}), ctx)
        E.stub(env, 'get_frame_name', lambda *a, **k: 'outer', ctx)
        penv = F.module_env('beartype._check.forward.reference.fwdrefproxy')
        E.stub(penv, 'proxy_hint_pep484_ref_str_fake', lambda *a, **k: 'FAKE-PROXY', ctx)
        saved = F.isinstance_hook
        F.isinstance_hook = lambda o, c: True if (isinstance(o, _Proxy) and c is meta) else (saved(o, c) if saved else None)
        n = 0
        cases = [
            # name, global defined, weakref, frame found, local defined, expected
            ('module-attribute-defined', True, None, False, False, 'GLOBAL-REFERENT'),
            ('module-attribute-defined:nested', True, _Weak(True), True, True, 'GLOBAL-REFERENT'),
            ('undefined:module-level', False, None, False, False, 'raise'),
            ('local-of-running-enclosing-callable', False, _Weak(True), True, True, 'LOCAL-REFERENT'),
            ('undefined:enclosing-callable-running', False, _Weak(True), True, False, 'raise'),
            ('enclosing-callable-returned', False, _Weak(True), False, False, 'any'),
            ('enclosing-callable-collected', False, _Weak(False), False, False, 'any'),
        ]
        for name, g, weak, frame, local, want in cases:
            state.update({'global': g, 'frame': frame, 'local': local})
            out = raised = None
            try:
                out = _call_function(F, fn, [_Proxy(weak)], {}, 1)
            except _Raise as ex:
                raised = _name(ex.what)
            except _Abort as ex:
                ctx.require(False, f'cannot interpret {fn.qual} ({name}): {ex}')
            n += 1
            if want == 'raise':
                ok = raised in fam
            elif want == 'any':
                # beyond what the property states (the defining frame no longer exists): only "no foreign exception"
                ok = raised is None or raised in fam
            else:
                ok = raised is None and out == want
            ctx.ob('C07.R3', f'proxy-resolver:{name}', mm.where(fn.node),
                   {'raise': 'an undefined name raises a forward-reference exception', 'any': 'no foreign exception'}.get(want, f'resolves to {want}'),
                   ok, f'evaluates to {out!r} / raises {raised!r}')
        F.isinstance_hook = saved
    ctx.floor('C07.R3', n, 7, 'resolver cases')


# ----------------------------------------------------------------------------------------------------------------- R4
def _scope_precedence(ctx):
    from sa.fold import AObj, DelegatingAObj, FuncVal, _Abort, _Raise, _call_function
    mm = ctx.repo.mod(SCOPEMAKE)
    ctx.rule('C07.R4', 'the scope a string annotation is evaluated in, decided by interpreting make_scope_forward_decor_curr over '
             '{module-level function, function nested in a running function, method of a class (at module level / nested in a '
             'running function), nested function whose defining frame cannot be found}: the name X bound at every level '
             'resolves as Python resolves it for an evaluated annotation — class body (of the innermost class of the stack, in which the method is defined) before enclosing-function '
             'locals before module globals before builtins; globals and builtins stay visible; the root and the current class of the class '
             'stack are visible by name; the scope is built once per decorated callable and the enclosing callable is '
             'remembered for names defined later')
    with _Engine(ctx) as E:
        F = E.F
        env = F.module_env(SCOPEMAKE)
        fn = env.get('make_scope_forward_decor_curr')
        ctx.require(isinstance(fn, FuncVal), 'anchor vanished: make_scope_forward_decor_curr')
        state = {}

        class _Scope(dict):
            """Stand-in for BeartypeForwardScope (a dict subclass): starts from the builtins like the real constructor's default."""
            def __init__(self, **k):
                super().__init__({'X': 'builtin-X', 'len': 'builtin-len'})
                self.kw = k

        class _Cls(AObj):
            def __init__(self, name):
                self.__dict__['__name__'] = name

            def __repr__(self):
                return f'<class {self.__dict__["__name__"]}>'

        class _Func(AObj):
            def __repr__(self):
                return '<decorated function>'

        class _Data(AObj):
            def __init__(self, cls_stack):
                self.decoratee = _Func()
                self.cls_stack = cls_stack
                self.decoratee_scope_forward = None
                self.conf = 'CONF'
                self._track_attribute_stores = True

            def __repr__(self):
                return '<decorator call data>'

        def find_locals(*a, **k):
            if not state['frame']:
                raise _Raise('_BeartypeUtilCallableScopeNotFoundException', 'find_func_locals_frame')
            state['ignored'] = k.get('ignore_func_scope_names')
            return ({'X': 'local-X', 'L': 'local-L'}, 'FRAME')
        scls = env.get('BeartypeForwardScope')
        ctx.require(scls is not None, 'anchor vanished: BeartypeForwardScope in the scope maker')
        from sa.fold import _PyCallable
        old_scope = F.patch_global(SCOPEMAKE, 'BeartypeForwardScope', _PyCallable(lambda *a, **k: _Scope(**k)))
        old_weak = F.patch_global(SCOPEMAKE, 'WeakrefCallableType', _PyCallable(lambda o: ('WEAKREF', o)))
        import types
        old_empty = F.patch_global(SCOPEMAKE, 'FROZENDICT_EMPTY', types.MappingProxyType({}))      # immutable and empty, like the original
        try:
            E.stub(env, 'get_func_globals', lambda *a, **k: {'X': 'global-X', 'G': 'global-G'}, ctx)
            E.stub(env, 'get_object_module_name', lambda *a, **k: 'mod', ctx)
            E.stub(env, 'find_func_locals_frame', find_locals, ctx)
            # the body of the class a method is defined in — the *current* (innermost) class of the stack — is what its annotations see
            E.stub(env, 'get_type_locals', lambda c=None, *a, **k: (
                {'X': 'class-X', 'C': 'class-C'} if (c if c is not None else k.get('cls')) is cur else {'X': 'outer-class-X', 'O': 'outer-class-O'}), ctx)
            E.stub(env, 'get_func_codeobject', lambda f, *a, **k: ('CODE-OF', f), ctx)
            E.stub(env, 'get_frame_parent_object_or_none', lambda *a, **k: None, ctx)
            E.stub(env, 'resolve_func_scope_pep695', lambda *a, **k: None, ctx)
            saved = F.isinstance_hook
            F.isinstance_hook = lambda o, c: (False if isinstance(o, (_Func, _Cls, _Data)) and getattr(c, 'name', None) == 'type'
                                               else (saved(o, c) if saved else None))
            root, cur = _Cls('Outer'), _Cls('Inner')
            cases = [
                # name, cls_stack, nested?, frame found?, X resolves to, extra visible
                ('module-level-function', None, False, False, 'global-X', {'G': 'global-G', 'len': 'builtin-len'}),
                ('nested-function', None, True, True, 'local-X', {'L': 'local-L', 'G': 'global-G', 'len': 'builtin-len'}),
                ('nested-function:frame-not-found', None, True, False, 'global-X', {'G': 'global-G', 'len': 'builtin-len'}),
                ('method:class-at-module-level', (root, cur), True, False, 'class-X',
                 {'C': 'class-C', 'Outer': root, 'Inner': cur, 'G': 'global-G', 'len': 'builtin-len'}),
                ('method:class-in-running-function', (root, cur), True, True, 'class-X',
                 {'C': 'class-C', 'L': 'local-L', 'Outer': root, 'Inner': cur, 'G': 'global-G', 'len': 'builtin-len'}),
            ]
            n = 0
            for name, stack, nested, frame, want_x, visible in cases:
                state.update({'frame': frame, 'ignored': None})
                data = _Data(stack)
                out = raised = None
                try:
                    out = _call_function(F, fn, [], {'decor_curr': data, 'hint': 'X', 'func_is_nested': nested}, 1)
                except _Raise as ex:
                    raised = _name(ex.what)
                except _Abort as ex:
                    ctx.require(False, f'cannot interpret {fn.qual} ({name}): {ex}')
                n += 1
                is_scope = isinstance(out, _Scope)
                ctx.ob('C07.R4', f'scope:{name}:precedence', mm.where(fn.node), f'the name bound at every level resolves to {want_x}',
                       is_scope and out.get('X') == want_x, f'X resolves to {out.get("X") if is_scope else out!r} (raised {raised!r})')
                missing = {k: v for k, v in visible.items() if not is_scope or out.get(k) is not v and out.get(k) != v}
                ctx.ob('C07.R4', f'scope:{name}:visible', mm.where(fn.node), f'{sorted(visible)} are visible', not missing,
                       f'not visible or bound to something else: {sorted(missing)}')
                ctx.ob('C07.R4', f'scope:{name}:built-once', mm.where(fn.node), 'the scope is kept on the decorator call data and reused',
                       is_scope and data.decoratee_scope_forward is out, f'decoratee_scope_forward is {data.decoratee_scope_forward!r}')
                if is_scope:
                    ctx.ob('C07.R4', f'scope:{name}:module-and-parent', mm.where(fn.node),
                           'proxies made for names defined later know the module and — if the defining frame was found — the enclosing callable',
                           out.kw.get('scope_name') == 'mod' and (out.kw.get('func_local_parent_codeobj_weakref') == ('WEAKREF', ('CODE-OF', 'FRAME'))) == bool(nested and frame),
                           f'scope constructed with {out.kw!r}')
                if stack is not None and frame:
                    ctx.ob('C07.R4', f'scope:{name}:class-scopes-skipped', mm.where(fn.node),
                           'the search for the enclosing function skips one lexical scope per class of the class stack',
                           state['ignored'] == len(stack), f'ignore_func_scope_names={state["ignored"]!r}')
                # second call: same object, nothing rebuilt
                if is_scope:
                    try:
                        again = _call_function(F, fn, [], {'decor_curr': data, 'hint': 'X', 'func_is_nested': nested}, 1)
                    except (_Raise, _Abort) as ex:
                        again = ex
                    ctx.ob('C07.R4', f'scope:{name}:second-call', mm.where(fn.node), 'a second annotation of the same callable gets the same scope',
                           again is out, f'second call evaluates to {again!r}')
            F.isinstance_hook = saved
        finally:
            F.patch_global(SCOPEMAKE, 'BeartypeForwardScope', old_scope)
            F.patch_global(SCOPEMAKE, 'WeakrefCallableType', old_weak)
            F.patch_global(SCOPEMAKE, 'FROZENDICT_EMPTY', old_empty)
    ctx.floor('C07.R4', n, 5, 'scope cases')


# ----------------------------------------------------------------------------------------------------------------- R5
def _missing(ctx):
    from sa.fold import AObj, DelegatingAObj, FuncVal, _Abort, _Raise, _call_function
    mm = ctx.repo.mod(SCOPECLS)
    ctx.rule('C07.R5', 'a name that is not defined yet does not fail the decoration: BeartypeForwardScope.__missing__, interpreted '
             'as eval() calls it for an unknown identifier, returns a forward-reference proxy made for that very name, the '
             'scope\'s module and its enclosing callable, and stores it under the name (the same proxy answers the next lookup); '
             'the constructor\'s default content is the builtins table')
    with _Engine(ctx) as E:
        F = E.F
        env = F.module_env(SCOPECLS)
        cls = F.const(SCOPECLS, 'BeartypeForwardScope')
        fn = cls.find('__missing__')
        ctx.require(isinstance(fn, FuncVal), 'anchor vanished: BeartypeForwardScope.__missing__')

        class _S(AObj):
            def __init__(self):
                self.d = {}
                self._exception_prefix = ''
                self._scope_name = 'mod'
                self._func_local_parent_codeobj_weakref = 'WEAK'
                self._hint_names_destringified = set()

            def __setitem__(self, k, v):
                self.d[k] = v

            def __getitem__(self, k):
                return self.d[k]
        made = []

        def proxy(*a, **k):
            made.append(k)
            return ('PROXY', k.get('hint_name'))
        E.stub(env, 'die_unless_identifier', lambda *a, **k: None, ctx)
        E.stub(env, 'get_frame_or_none', lambda *a, **k: 'FRAME', ctx)
        E.stub(env, 'is_frame_beartype', lambda *a, **k: False, ctx)
        E.stub(env, 'is_frame_eval', lambda *a, **k: True, ctx)
        E.stub(env, 'proxy_hint_pep484_ref_str_subbable', proxy, ctx)
        s = _S()
        out = raised = None
        try:
            out = _call_function(F, fn, [s, 'Later'], {}, 1)
        except _Raise as ex:
            raised = _name(ex.what)
        except _Abort as ex:
            ctx.require(False, f'cannot interpret {fn.qual}: {ex}')
        ctx.ob('C07.R5', 'missing:returns-proxy-for-the-name', mm.where(fn.node), 'the lookup of an undefined identifier yields a proxy for it',
               raised is None and out == ('PROXY', 'Later') and len(made) == 1, f'evaluates to {out!r} / raises {raised!r}')
        ctx.ob('C07.R5', 'missing:proxy-knows-module-and-parent', mm.where(fn.node), 'the proxy is made for the scope\'s module and enclosing callable',
               bool(made) and made[0].get('scope_name') == 'mod' and made[0].get('func_local_parent_codeobj_weakref') == 'WEAK',
               f'proxy made with {made[:1]!r}')
        ctx.ob('C07.R5', 'missing:stored-under-the-name', mm.where(fn.node), 'the proxy is stored under the name', s.d.get('Later') == out and out is not None,
               f'scope afterwards {s.d!r}')
        # constructor default: the builtins
        init = cls.find('__init__')
        ctx.require(isinstance(init, FuncVal), 'anchor vanished: BeartypeForwardScope.__init__')
        a = init.node.args
        pos = a.posonlyargs + a.args
        defaults = dict(zip([p.arg for p in pos[len(pos) - len(a.defaults):]], a.defaults))
        defaults.update({p.arg: d for p, d in zip(a.kwonlyargs, a.kw_defaults) if d is not None})
        supers = [c for c in ast.walk(init.node) if isinstance(c, ast.Call) and isinstance(c.func, ast.Attribute) and c.func.attr == '__init__'
                  and isinstance(c.func.value, ast.Call) and dotted(c.func.value.func) == 'super']
        seed = supers[0].args[0].id if supers and supers[0].args and isinstance(supers[0].args[0], ast.Name) else None
        dflt = defaults.get(seed)
        ok = False
        if dflt is not None:
            ref = ctx.repo.resolve_name(mm, init.node, dotted(dflt))
            if ref.module in ctx.repo.modules and ref.name:
                dm = ctx.repo.modules[ref.module]
                for a in ast.walk(dm.tree):
                    if isinstance(a, ast.Assign) and any(dotted(t) == ref.name for t in a.targets) and isinstance(a.value, ast.DictComp) \
                            and any('BUILTINS' in norm(g.iter).upper() for g in a.value.generators):
                        ok = True
        ctx.ob('C07.R5', 'scope:default-content-is-the-builtins', mm.where(init.node),
               'a scope starts from the table of builtins (so that builtin names in a string annotation resolve)', ok,
               f'super().__init__({seed}) with default {norm(dflt) if dflt is not None else None}')
    ctx.floor('C07.R5', 4, 4, 'obligations on the scope class')


# ----------------------------------------------------------------------------------------------------------------- R6
def _routes(ctx):
    repo = ctx.repo
    ctx.rule('C07.R6', 'every route resolves a string before anything else looks at the hint: (a) the root coercer of the decorator '
             'route tests isinstance(hint, str) and replaces the hint by the resolver\'s result before its first other use; '
             '(b) the reducer of forward references hands every string to the resolver of the current call (decorator scope or '
             'external caller); (c) each resolver evaluates the string inside a handler for Exception that raises the forwarded '
             'exception class from the original (a NameError / SyntaxError / AttributeError of the evaluation never escapes bare)')
    # (a)
    Q = 'beartype._check.convert._convcoerce'
    m = repo.mod(Q)
    fn = repo.find_def(Q, 'coerce_func_hint_root')
    def resolves_string(st):
        return isinstance(st, ast.If) and any(
            isinstance(c, ast.Call) and dotted(c.func) == 'isinstance' and c.args and dotted(c.args[0]) == 'hint' and 'str' in norm(c.args[1])
            for c in ast.walk(st.test)) and any(
            isinstance(a, ast.Assign) and dotted(a.targets[0]) == 'hint' and isinstance(a.value, ast.Call)
            and 'resolve_hint_pep484_ref_str' in dotted(a.value.func) for a in st.body)
    idx = next((i for i, st in enumerate(fn.body) if resolves_string(st)), None)
    earlier = []
    if idx is not None:
        for st in fn.body[:idx]:
            if isinstance(st, ast.Assert) or (isinstance(st, ast.Expr) and isinstance(st.value, ast.Constant)):
                continue
            if any(isinstance(x, ast.Name) and x.id == 'hint' for x in ast.walk(st)):
                earlier.append(st)
    ctx.ob('C07.R6', 'route:decorator-root:string-resolved-first', m.where(fn.body[idx] if idx is not None else fn),
           'the root coercer replaces a string hint by the resolver\'s result before any other statement uses the hint',
           idx is not None and not earlier,
           'no `if isinstance(hint, str): hint = resolve…` statement' if idx is None else
           (f'used earlier by `{norm(earlier[0])[:100]}`' if earlier else ''))
    # (b)
    R = 'beartype._check.convert._reduce._pep.pep484.redpep484ref'
    rm = repo.mod(R)
    rfn = repo.find_def(R, 'reduce_hint_pep484_ref')
    calls = [c for c in ast.walk(rfn) if isinstance(c, ast.Call) and isinstance(c.func, ast.Attribute) and c.func.attr == 'resolve_hint_pep484_ref_str']
    ok = bool(calls) and all(dotted(c.func.value) == 'call_curr' and any(k.arg == 'hint' and dotted(k.value) == 'hint' for k in c.keywords) for c in calls)
    ctx.ob('C07.R6', 'route:reducer:string-to-current-call-resolver', rm.where(calls[0] if calls else rfn),
           'the forward-reference reducer resolves strings through the current call\'s resolver', ok, norm(calls[0])[:120] if calls else 'no call')
    impls = []
    for mn, mod in sorted(repo.modules.items()):
        if not mn.startswith('beartype._check.cls.call'):
            continue
        for c in [x for x in ast.walk(mod.tree) if isinstance(x, ast.FunctionDef) and x.name == 'resolve_hint_pep484_ref_str']:
            rets = [r for r in walk_shallow(c) if isinstance(r, ast.Return) and isinstance(r.value, ast.Call)]
            if not rets:
                continue        # abstract declaration
            impls.append(mn)
            tgt = dotted(rets[0].value.func)
            ctx.ob('C07.R6', f'route:call-data:{mn.rsplit(".", 1)[-1]}.{qualname_of(c)}', mod.where(rets[0]),
                   'the call-data resolver delegates to a resolver of the forward-reference package',
                   tgt.startswith('resolve_hint_pep484_ref_str_') and any(k.arg == 'hint' and dotted(k.value) == 'hint' for k in rets[0].value.keywords),
                   norm(rets[0])[:120])
    ctx.require(len(impls) >= 2, f'expected the decorator and the external call-data resolvers, found {impls}')
    # (c)
    n = 0
    # (wherever in the forward-reference package the evaluation lives)
    evals = [(fm_, f) for mn_, fm_ in sorted(repo.modules.items()) if mn_.startswith(FWD)
             for f in ast.walk(fm_.tree) if isinstance(f, ast.FunctionDef)]
    for fm, f in evals:
        for c in [x for x in walk_shallow(f) if isinstance(x, ast.Call) and dotted(x.func) == 'eval']:
            n += 1
            t = None
            p = c
            from sa.repo import parent
            while p is not None and p is not f:
                if isinstance(p, ast.Try) and any(c in list(ast.walk(s)) for s in p.body):
                    t = p
                    break
                p = parent(p)
            good = False
            if t is not None:
                for h in t.handlers:
                    if h.type is not None and dotted(h.type) in ('Exception', 'BaseException') and h.name:
                        rs = [r for r in ast.walk(h) if isinstance(r, ast.Raise)]
                        good = bool(rs) and all(isinstance(r.exc, ast.Call) and dotted(r.exc.func) == 'exception_cls'
                                                and r.cause is not None and dotted(r.cause) == h.name for r in rs)
            ctx.ob('C07.R6', f'resolver:{qualname_of(f)}:evaluation-converted', fm.where(c),
                   'whatever the evaluation of the string raises is re-raised as exception_cls from the original', good, norm(c)[:80])
    ctx.floor('C07.R6', n, 1, 'evaluations of annotation strings')


# ----------------------------------------------------------------------------------------------------------------- R7
def _proxy_verdict(ctx):
    from sa.fold import AObj, DelegatingAObj, FuncVal, _Abort, _Raise, _call_function
    fam = _forward_family(ctx)
    mm = ctx.repo.mod(META)
    ctx.rule('C07.R7', 'a check against a name defined later gives the verdict of the referent: the proxy\'s __instancecheck__, '
             'interpreted over {referent a plain isinstanceable class, a PEP hint that is not isinstanceable, a PEP hint that '
             'also is a class (a generic)} × {the referent accepts, rejects}: it answers what isinstance(obj, referent) — for '
             'plain classes — or is_bearable(obj, referent) — for PEP hints — answers for that very object and referent; '
             '__subclasscheck__ answers issubclass(obj, referent type); the referent-type property raises a forward-reference '
             'exception for a referent that is not isinstanceable and does not remember it')
    with _Engine(ctx) as E:
        F = E.F
        env = F.module_env(META)
        cls = F.const(META, 'BeartypeForwardRefMeta')
        inst, subc, rtyp = cls.find('__instancecheck__'), cls.find('__subclasscheck__'), cls.find('__resolved_type_beartype__')
        ctx.require(all(isinstance(f, FuncVal) for f in (inst, subc, rtyp)), 'anchor vanished: the proxy\'s __instancecheck__ / __subclasscheck__ / __resolved_type_beartype__')
        state = {}
        log = []

        class _Proxy(DelegatingAObj):
            _real_class = cls

            def __init__(self, referent, rtype=None):
                d = self.__dict__
                d['__resolved_hint_beartype__'] = referent
                d['__resolved_type_beartype__'] = rtype if rtype is not None else referent
                d['__exception_prefix_beartype__'] = ''
                d['__hint_pep749_ref_beartype__'] = None
                d['__scope_name_beartype__'] = 'mod'
                d['__hint_name_beartype__'] = 'Later'
                d['__name__'] = 'LaterProxy'

            def __repr__(self):
                return '<proxy of "Later">'
        E.stub(env, 'is_object_isinstanceable', lambda o, *a, **k: state['isinstanceable'], ctx)
        E.stub(env, 'is_hint_pep', lambda o, *a, **k: state['pep'], ctx)
        denv = F.module_env('beartype.door._func.doorfunc')

        def bearable(*a, **k):
            log.append(('is_bearable', k.get('obj', a[0] if a else None), k.get('hint', a[1] if len(a) > 1 else None)))
            return state['verdict']
        E.stub(denv, 'is_bearable', bearable, ctx)
        saved_b = F.builtin_hook

        def bh(name, args, kw):
            if name in ('isinstance', 'issubclass') and len(args) == 2 and args[0] == 'OBJ':
                log.append((name, args[0], args[1]))
                return state['verdict']
            return saved_b(name, args, kw) if saved_b else NotImplemented
        F.builtin_hook = bh
        n = 0
        try:
            for kind, isinstanceable, pep, via in (('plain-class', True, False, 'isinstance'), ('pep-hint', False, True, 'is_bearable'),
                                                   ('generic-class', True, True, 'is_bearable')):
                for verdict in (True, False):
                    state.update({'isinstanceable': isinstanceable, 'pep': pep, 'verdict': verdict})
                    del log[:]
                    out = raised = None
                    try:
                        out = _call_function(F, inst, [_Proxy('REFERENT'), 'OBJ'], {}, 1)
                    except _Raise as ex:
                        raised = _name(ex.what)
                    except _Abort as ex:
                        ctx.require(False, f'cannot interpret {inst.qual} ({kind}): {ex}')
                    n += 1
                    ctx.ob('C07.R7', f'proxy-verdict:instance:{kind}:{"accepts" if verdict else "rejects"}', mm.where(inst.node),
                           f'the verdict is {via}(obj, referent) for the very object and referent',
                           raised is None and out is verdict and log == [(via, 'OBJ', 'REFERENT')],
                           f'evaluates to {out!r} / raises {raised!r} after {log!r}')
            for verdict in (True, False):
                state.update({'verdict': verdict})
                del log[:]
                out = raised = None
                try:
                    out = _call_function(F, subc, [_Proxy('REFERENT', 'REFERENT-TYPE'), 'OBJ'], {}, 1)
                except _Raise as ex:
                    raised = _name(ex.what)
                except _Abort as ex:
                    ctx.require(False, f'cannot interpret {subc.qual}: {ex}')
                n += 1
                ctx.ob('C07.R7', f'proxy-verdict:subclass:{"accepts" if verdict else "rejects"}', mm.where(subc.node),
                       'the verdict is issubclass(obj, referent type)', raised is None and out is verdict and log == [('issubclass', 'OBJ', 'REFERENT-TYPE')],
                       f'evaluates to {out!r} / raises {raised!r} after {log!r}')
            # the referent-type memo
            tables = [k for k, v in env.items() if isinstance(v, dict) and k.startswith('_') and 'type' in k and 'hint' not in k]
            ctx.require(len(tables) == 1, f'anchor vanished: the referent-type memo table of the proxy metaclass ({tables})')
            table = env[tables[0]]

            def die(*a, **k):
                raise _Raise(_name(k.get('exception_cls', 'BeartypeDecorHintPep3119Exception')), 'die_unless_object_isinstanceable')
            E.stub(env, 'die_unless_object_isinstanceable', die, ctx)
            E.stub(env, 'is_hint_pep484585_generic', lambda *a, **k: False, ctx)
            for step, (isinstanceable, want) in enumerate(((False, 'raise'), (True, 'REFERENT'), (True, 'REFERENT'))):
                if step == 0:
                    table.clear()
                    p = _Proxy('REFERENT')
                state.update({'isinstanceable': isinstanceable})
                out = raised = None
                try:
                    out = _call_function(F, rtyp, [p], {}, 1)
                except _Raise as ex:
                    raised = _name(ex.what)
                except _Abort as ex:
                    ctx.require(False, f'cannot interpret {rtyp.qual}: {ex}')
                n += 1
                if want == 'raise':
                    ctx.ob('C07.R7', 'referent-type:not-isinstanceable', mm.where(rtyp.node),
                           'a referent that cannot be passed to isinstance() raises a forward-reference exception and is not remembered',
                           raised in fam and p not in table, f'evaluates to {out!r} / raises {raised!r}; memo {table!r}')
                else:
                    ctx.ob('C07.R7', f'referent-type:isinstanceable:step{step}', mm.where(rtyp.node), 'an isinstanceable referent is returned',
                           raised is None and out == 'REFERENT', f'evaluates to {out!r} / raises {raised!r}')
            table.clear()
        finally:
            F.builtin_hook = saved_b
    ctx.floor('C07.R7', n, 11, 'verdict cases')


# ----------------------------------------------------------------------------------------------------------------- R8
def _derived_proxies(ctx):
    from sa.fold import AObj, DelegatingAObj, FuncVal, _Abort, _Raise, _call_function
    PROXY = 'beartype._check.forward.reference.fwdrefproxy'
    ABC = 'beartype._check.forward.reference._cls.fwdrefabc'
    pm, am = ctx.repo.mod(PROXY), ctx.repo.mod(ABC)
    ctx.rule('C07.R8', 'a forward-reference proxy keeps what it needs to be resolved when the name is defined: interpreted end to end '
             '(only the construction of the proxy class itself stubbed), the proxy the scope makes for an undefined name carries '
             'the name, the module, the message prefix and the enclosing callable it was made for; a proxy derived from it by '
             'subscription (the annotation \'Box[int]\' with Box defined later in the same function) carries the same four and '
             'its arguments — otherwise the derived proxy is looked up in the wrong place and never resolves')
    with _Engine(ctx) as E:
        F = E.F
        penv = F.module_env(PROXY)

        class _Made(AObj):
            """The class object make_type() would return: attribute stores are recorded."""
            _track_attribute_stores = True

            def __init__(self, kw):
                self.made_with = kw

        class _Weak(AObj):
            def __repr__(self):
                return '<weak reference to the enclosing callable>'
        weak = _Weak()
        E.stub(penv, 'make_type', lambda *a, **k: _Made(k), ctx)
        E.stub(penv, 'die_unless_identifier', lambda *a, **k: None, ctx)
        saved = F.isinstance_hook
        F.isinstance_hook = lambda o, c: True if isinstance(o, _Weak) else (saved(o, c) if saved else None)
        n = 0

        def attrs(o):
            return {k: getattr(o, k, '<unset>') for k in ('__scope_name_beartype__', '__hint_name_beartype__', '__exception_prefix_beartype__',
                                                        '__func_local_parent_codeobj_weakref_beartype__')}
        try:
            fn = penv.get('proxy_hint_pep484_ref_str_subbable')
            ctx.require(isinstance(fn, FuncVal), 'anchor vanished: proxy_hint_pep484_ref_str_subbable')
            out = None
            try:
                out = _call_function(F, fn, [], {'scope_name': 'mod', 'hint_name': 'Box', 'func_local_parent_codeobj_weakref': weak,
                                                 'exception_prefix': 'PREFIX '}, 1)
            except (_Raise, _Abort) as ex:
                ctx.require(False, f'cannot interpret {fn.qual}: {ex}')
            want = {'__scope_name_beartype__': 'mod', '__hint_name_beartype__': 'Box', '__exception_prefix_beartype__': 'PREFIX ',
                    '__func_local_parent_codeobj_weakref_beartype__': weak}
            n += 1
            ctx.ob('C07.R8', 'proxy:made-for-undefined-name', pm.where(fn.node), 'the proxy carries name, module, prefix and enclosing callable',
                   isinstance(out, _Made) and attrs(out) == want, f'proxy attributes {attrs(out) if isinstance(out, _Made) else out!r}')
            # subscription of that proxy
            cls = F.const(ABC, 'BeartypeForwardRefSubbableABC')
            cg = cls.find('__class_getitem__')
            ctx.require(isinstance(cg, FuncVal), 'anchor vanished: BeartypeForwardRefSubbableABC.__class_getitem__')

            class _Parent(DelegatingAObj):
                _real_class = cls

                def __init__(self):
                    self.__dict__.update(want)
            sub = None
            try:
                sub = _call_function(F, cg, [_Parent(), 'ARG'], {}, 1)
            except (_Raise, _Abort) as ex:
                ctx.require(False, f'cannot interpret {cg.qual}: {ex}')
            n += 1
            ctx.ob('C07.R8', 'proxy:derived-by-subscription:inherits', am.where(cg.node),
                   'the subscripted proxy refers to the same name, module, prefix and enclosing callable', isinstance(sub, _Made) and attrs(sub) == want,
                   f'derived proxy attributes {attrs(sub) if isinstance(sub, _Made) else sub!r}')
            n += 1
            ctx.ob('C07.R8', 'proxy:derived-by-subscription:arguments', am.where(cg.node), 'the subscripted proxy records its arguments',
                   isinstance(sub, _Made) and getattr(sub, '__args_beartype__', None) == ('ARG',),
                   f'__args_beartype__ = {getattr(sub, "__args_beartype__", "<unset>")!r}')
        finally:
            F.isinstance_hook = saved
    ctx.floor('C07.R8', n, 3, 'proxy constructions')
