"""C14 — memoisation is invisible.

R1  key completeness: every parameter of a memoised computation is in the key, or only
    influences the result through callees whose cacheability flag guards the store;
R2  key injectivity: a key derived through ``repr`` / ``str`` / names is lossy when the cached
    value replaces the argument; an ``id()`` key is unsound unless the table retains the object;
R3  failures are not remembered where they depend on the environment;
R4  the clear list is complete (every run-time memo table is cleared by ``clear_caches`` or
    is in the reasoned "need not be cleared" table);
R5  pooled scratch objects do not escape (released on every path, not returned, not stored);
R6  memoising wrappers are called the way they can key (positionally).
"""
from __future__ import annotations

import ast

from sa.astutil import decorator_names, dotted, params_of
from sa.callgraph import CallGraph
from sa.flow import Flow, walk_shallow
from sa.repo import AnalysisError, enclosing_function, norm, parent, qualname_of

CONTAINER_CTORS = ('dict', 'defaultdict', 'set', 'list', 'CacheUnboundedStrong', 'CacheLruStrong', 'OrderedDict', 'deque')

# run-time state that need not be cleared by clear_caches(), one reason each
NEED_NOT_CLEAR = {
    'beartype._decor.decorcache._bear_conf_to_decor': 'decorator closures depend on the configuration only',
    'beartype._conf.confmain._beartype_conf_args_to_conf': 'configuration singletons must survive (identity is API)',
    'beartype._decor._type.decortype._BEARTYPED_MODULE_TO_TYPE_NAME': 'self-clearing redefinition heuristic',
    'beartype._util.cache.pool.utilcachepoolinstance._instance_pool': 'object pool, holds no results',
    'beartype._util.cache.pool.utilcachepoollistfixed._fixed_list_pool': 'object pool, holds no results',
    'beartype._util.hint.pep.proposal.pep749.pep649749annotate._MODULE_NAME_TO_HINTABLE_BASENAME_TO_ANNOTATIONS':
        'listed in the clear_caches docstring',
}
# the function that writes each exempt table (second way of recognising it)
NEED_NOT_CLEAR_WRITERS = {
    'beartype._decor.decorcache._bear_conf_to_decor': 'beartype',
    'beartype._conf.confmain._beartype_conf_args_to_conf': 'BeartypeConf.__new__',
    'beartype._decor._type.decortype._BEARTYPED_MODULE_TO_TYPE_NAME': '_uncache_beartype_if_type_redefined',
}
IMPURE = {
    'sys.modules': 'the module table', 'sys._getframe': 'live frames', 'inspect.currentframe': 'live frames',
    'os.environ': 'the process environment', 'os.getenv': 'the process environment', 'importlib.import_module': 'imports',
    'import_module': 'imports', 'globals': 'a module namespace', 'sys.path': 'the import path',
}
# memoised functions whose dependence on an impure source was reviewed, with the reason it is harmless
IMPURE_OK = {}


def _module_tables(repo):
    """module-level mutable containers: qual -> (module, assignment)"""
    out = {}
    for mn, m in repo.modules.items():
        for nm, sts in m.assigns.items():
            for st in sts:
                v = getattr(st, 'value', None)
                if v is None or parent(st) is not m.tree:
                    continue
                is_tab = (isinstance(v, (ast.Dict, ast.List, ast.Set)) and not getattr(v, 'keys', getattr(v, 'elts', None))) or \
                    (isinstance(v, ast.Call) and (dotted(v.func) or '').split('.')[-1] in CONTAINER_CTORS
                     and not (dotted(v.func) in ('dict', 'list', 'set') and v.args))
                if is_tab:
                    out[f'{mn}.{nm}'] = (m, st)
    return out


def _writers(repo, tables):
    """table qual -> [(module, function node, statement)] for stores made inside functions"""
    by_name = {}
    for q in tables:
        by_name.setdefault(q.rsplit('.', 1)[1], []).append(q)
    out = {q: [] for q in tables}
    for mn, m in repo.modules.items():
        if not any(nm in m.src for nm in by_name):
            continue
        for fn in [x for x in ast.walk(m.tree) if isinstance(x, (ast.FunctionDef, ast.AsyncFunctionDef))]:
            for x in walk_shallow(fn):
                tgt = None
                if isinstance(x, (ast.Assign, ast.AugAssign)):
                    for t in (x.targets if isinstance(x, ast.Assign) else [x.target]):
                        b = t
                        while isinstance(b, ast.Subscript):
                            b = b.value
                        if isinstance(t, ast.Subscript) and isinstance(b, ast.Name):
                            tgt = b.id
                elif isinstance(x, ast.Call) and isinstance(x.func, ast.Attribute) and isinstance(x.func.value, ast.Name) \
                        and (x.func.attr in ('add', 'append', 'update', 'setdefault', 'insert', 'extend', 'appendleft')
                             or x.func.attr.startswith('cache_or_get_')):
                    tgt = x.func.value.id
                elif isinstance(x, ast.Assign) and isinstance(x.value, ast.Call) and isinstance(x.value.func, ast.Attribute):
                    pass
                if tgt and tgt in by_name:
                    r = repo.resolve_name(m, x, tgt)
                    q = f'{r.module}.{r.name}' if r.kind == 'var' else None
                    if q in out:
                        out[q].append((m, fn, x))
    return out


def run(ctx):
    repo = ctx.repo
    tables = _module_tables(repo)
    writers = _writers(repo, tables)
    runtime = {}
    for q, ws in writers.items():
        live = [(m, fn, st) for m, fn, st in ws if not _import_time_only(repo, m, fn)]
        if live:
            runtime[q] = live

    # ---- R4 ----------------------------------------------------------------------
    ctx.rule('C14.R4', 'every module-level container that is written from a function at run time (discovered on this '
             'run) is emptied by clear_caches() — directly or through clear_object_attr_caches() — or is listed, '
             'with a reason, among the tables that need not be cleared')
    cm = repo.mod('beartype._util.cache.utilcacheclear')
    cf = cm.defs.get('clear_caches')
    ctx.require(cf is not None, 'anchor vanished: clear_caches')
    cleared = set()
    for c in walk_shallow(cf):
        if isinstance(c, ast.Call) and isinstance(c.func, ast.Attribute) and c.func.attr == 'clear' and isinstance(c.func.value, ast.Name):
            r = repo.resolve_name(cm, c, c.func.value.id)
            cleared.add(f'{r.module}.{r.name}')
        if isinstance(c, ast.Call) and dotted(c.func) == 'clear_object_attr_caches':
            om = repo.mod('beartype._util.cache.utilcacheobjattr')
            of = om.defs.get('clear_object_attr_caches')
            ctx.require(of is not None, 'anchor vanished: clear_object_attr_caches')
            for c2 in ast.walk(of):
                if isinstance(c2, ast.Call) and isinstance(c2.func, ast.Attribute) and c2.func.attr == 'clear' and isinstance(c2.func.value, ast.Name):
                    cleared.add(f'{om.name}.{c2.func.value.id}')
    # `for cache in (T1, T2, …): cache.clear()`
    for lp in [x for x in walk_shallow(cf) if isinstance(x, ast.For) and isinstance(x.target, ast.Name)
               and isinstance(x.iter, (ast.Tuple, ast.List))]:
        if any(isinstance(c, ast.Call) and isinstance(c.func, ast.Attribute) and c.func.attr == 'clear'
               and dotted(c.func.value) == lp.target.id for st_ in lp.body for c in ast.walk(st_)):
            for e in lp.iter.elts:
                if isinstance(e, ast.Name):
                    r = repo.resolve_name(cm, lp, e.id)
                    cleared.add(f'{r.module}.{r.name}')
    # the exemption table is matched by table name or, if the table was renamed, by the function(s) writing it —
    # moving a table to another module or renaming it must not turn an exempt table into a finding
    exempt_names = {k.rsplit('.', 1)[1]: k for k in NEED_NOT_CLEAR}
    exempt_writers = {w: k for k, w in NEED_NOT_CLEAR_WRITERS.items()}
    for q in sorted(runtime):
        m, st = tables[q]
        wq = sorted({qualname_of(fn) for _, fn, _ in runtime[q]})
        ok = q in cleared or q in NEED_NOT_CLEAR or q.rsplit('.', 1)[1] in exempt_names \
            or (len(wq) == 1 and wq[0] in exempt_writers)
        ctx.ob('C14.R4', f'table:{q}', m.where(st), 'a run-time memo table is cleared by clear_caches() or reasoned exempt',
               ok, f'written by {sorted({qualname_of(fn) for _, fn, _ in runtime[q]})}; not cleared, not in the exemption table')
    ctx.floor('C14.R4', len(runtime), 9, 'run-time tables written from functions')

    # ---- R13 ---------------------------------------------------------------------
    ctx.rule('C14.R13', 'objects used as memo keys are equal only if what their hash was computed from is equal: for every class of the '
             'package that defines __eq__ and stores a hash computed as hash((a, b, …)) / hash(x) in its constructor, __eq__ '
             'compares (== or is, self against other) an attribute holding each hashed component — an __eq__ that trusts the '
             'hash alone makes two hints with colliding hashes (hash(-1) == hash(-2)) share one memoised check')
    n13 = 0
    for mn, m in sorted(repo.modules.items()):
        for c in [x for x in ast.walk(m.tree) if isinstance(x, ast.ClassDef)]:
            meths = {f.name: f for f in c.body if isinstance(f, ast.FunctionDef)}
            eq = meths.get('__eq__')
            if eq is None:
                continue
            for ctor in (meths.get('__init__'), meths.get('__new__')):
                if ctor is None:
                    continue
                hs = [a for a in ast.walk(ctor) if isinstance(a, ast.Assign) and isinstance(a.targets[0], ast.Attribute)
                      and dotted(a.targets[0].value) == 'self' and 'hash' in a.targets[0].attr and isinstance(a.value, ast.Call)
                      and dotted(a.value.func) == 'hash' and a.value.args]
                if not hs:
                    continue
                e = hs[0].value.args[0]
                comps = list(e.elts) if isinstance(e, ast.Tuple) else [e]
                names = []
                for x in comps:
                    if isinstance(x, ast.Call) and dotted(x.func) == 'id' and x.args:
                        x = x.args[0]
                    if isinstance(x, ast.Name):
                        names.append(x.id)
                stored = {}
                for a in ast.walk(ctor):
                    if isinstance(a, ast.Assign) and isinstance(a.targets[0], ast.Attribute) and dotted(a.targets[0].value) == 'self' \
                            and isinstance(a.value, ast.Name):
                        stored.setdefault(a.value.id, set()).add(a.targets[0].attr)
                compared = set()
                for cmp_ in [x for x in ast.walk(eq) if isinstance(x, ast.Compare) and len(x.ops) == 1 and isinstance(x.ops[0], (ast.Eq, ast.Is))]:
                    l, r = cmp_.left, cmp_.comparators[0]
                    if isinstance(l, ast.Attribute) and isinstance(r, ast.Attribute) and l.attr == r.attr \
                            and {dotted(l.value), dotted(r.value)} == {'self', 'other'}:
                        compared.add(l.attr)
                missing = [nm for nm in names if stored.get(nm) and not (stored[nm] & compared)]
                n13 += 1
                ctx.ob('C14.R13', f'eq-compares-what-hash-hashes:{mn.rsplit(".", 1)[-1]}.{c.name}', m.where(eq),
                       'equality compares every hashed component', not missing,
                       f'hashed but not compared by __eq__: {missing} (compared attributes: {sorted(compared)})')
    ctx.floor('C14.R13', n13, 1, 'classes with a stored hash and an __eq__')

    # ---- R12 ---------------------------------------------------------------------
    ctx.rule('C14.R12', 'what a scope-dependent hint means is not memoised with the hint: every reducer under beartype/_check/convert '
             'that resolves a hint through the current call (call_curr.resolve_hint_pep484_ref_str — the meaning depends on the '
             'scope of the decorated callable) or reads the class stack returns sanified metadata built with the constant '
             'is_check_expr_cacheable=False on every path — a cacheable forward reference is answered for the class it named when '
             'first resolved (another module\'s, or the one a name was bound to before being rebound)')
    n12 = 0
    for mn, m in sorted(repo.modules.items()):
        if not mn.startswith('beartype._check.convert._reduce'):
            continue
        for fn in [x for x in ast.walk(m.tree) if isinstance(x, ast.FunctionDef)]:
            scope_dep = [c for c in walk_shallow(fn) if isinstance(c, ast.Call) and isinstance(c.func, ast.Attribute)
                         and dotted(c.func.value) in ('call_curr', 'decor_curr') and c.func.attr.startswith('resolve_')]
            scope_dep += [x for x in walk_shallow(fn) if isinstance(x, ast.Attribute) and x.attr == 'cls_stack' and dotted(x.value) in ('call_curr', 'decor_curr')]
            if not scope_dep:
                continue
            makers = [c for c in walk_shallow(fn) if isinstance(c, ast.Call) and dotted(c.func).split('.')[-1] in ('make_hint_sane', 'HintSane')]
            for c in makers:
                n12 += 1
                kw = {k.arg: k.value for k in c.keywords}
                v = kw.get('is_check_expr_cacheable')
                ctx.ob('C14.R12', f'scope-dependent:{mn.rsplit(".", 1)[-1]}.{qualname_of(fn)}', m.where(c),
                       'metadata of a scope-dependent hint is never cacheable', isinstance(v, ast.Constant) and v.value is False,
                       f'{norm(c)[:100]}')
    ctx.floor('C14.R12', n12, 2, 'sanified-metadata constructions in scope-dependent reducers')

    # ---- R11 ---------------------------------------------------------------------
    ctx.rule('C14.R11', 'one memo table per memoised computation: no module-level name is bound to another module-level memo table '
             '(NAME = OTHER_TABLE at module level, where OTHER_TABLE is a mutable container of the package) — two computations '
             'sharing one table answer each other\'s questions whenever their keys meet (the tester cache of is_bearable aliased '
             'to the raiser cache of die_if_unbearable)')
    short = {q.rsplit('.', 1)[1]: q for q in tables}
    n_alias = 0
    for mn, m in sorted(repo.modules.items()):
        for nm, sts in m.assigns.items():
            for st in sts:
                v = getattr(st, 'value', None)
                if parent(st) is not m.tree or not isinstance(v, ast.Name) or v.id == nm:
                    continue
                r = repo.resolve_name(m, st, v.id)
                q = f'{r.module}.{r.name}'
                if q in tables:
                    n_alias += 1
                    ctx.ob('C14.R11', f'alias:{mn}.{nm}', m.where(st), 'a memo table is not an alias of another memo table', False,
                           f'{nm} is bound to the table {q}')
    ctx.ob('C14.R11', 'alias:module-level-tables-scanned', 'beartype/_util/cache/utilcacheclear.py:0',
           f'{len(tables)} module-level containers scanned for aliases', len(tables) >= 15, f'{len(tables)} containers')

    # ---- R2 ----------------------------------------------------------------------
    ctx.rule('C14.R2', 'classification of every memo key: the value itself (equality) is fine; a key derived through '
             'repr()/str()/get_hint_repr()/__name__/__qualname__ is lossy, a violation when the cached value is '
             'returned in place of the argument; a key made of id() is unsound unless the table also retains the '
             'keyed objects')
    n = 0
    for q, ws in sorted(runtime.items()):
        for m, fn, st in ws:
            keys = []
            if isinstance(st, ast.Assign):
                for t in st.targets:
                    if isinstance(t, ast.Subscript):
                        keys.append(t.slice)
            elif isinstance(st, ast.Call):
                for k in st.keywords:
                    if k.arg == 'key':
                        keys.append(k.value)
                if not any(k.arg == 'key' for k in st.keywords) and st.args and (st.func.attr == 'setdefault' or st.func.attr.startswith('cache_or_get_')):
                    keys.append(st.args[0])
            for k in keys:
                n += 1
                lossy = _lossy(fn, k)
                replaced = _returns_cached_instead_of_argument(fn, st)
                ctx.ob('C14.R2', f'key:{q.rsplit(".", 1)[1]}:{qualname_of(fn)}', m.where(st),
                       'the key identifies the memoised argument (no lossy text key standing in for the object)',
                       not lossy,
                       f'key `{norm(k)[:60]}` is derived through {lossy}; the cached value replaces the argument: two '
                       f'distinct hints with one repr() share an entry' if lossy else '')
    cc = repo.mod('beartype._util.cache.utilcachecall')
    for deco in ('callable_cached', 'method_cached_arg_by_id', 'property_cached'):
        fn = cc.defs.get(deco)
        if fn is None:
            continue
        for inner in [x for x in ast.walk(fn) if isinstance(x, ast.FunctionDef) and x is not fn]:
            for a in walk_shallow(inner):
                if isinstance(a, ast.Assign) and isinstance(a.value, ast.Tuple) and any(
                        isinstance(e, ast.Call) and dotted(e.func) == 'id' for e in a.value.elts):
                    n += 1
                    # retained?  the table must store the keyed objects too
                    retained = any(isinstance(s, ast.Assign) and isinstance(s.targets[0], ast.Subscript)
                                   and any(dotted(e.args[0]) in norm(s.value) for e in a.value.elts if isinstance(e, ast.Call))
                                   and 'func(' not in norm(s.value)
                                   for s in walk_shallow(inner))
                    ctx.ob('C14.R2', f'key:{deco}:id-of-arguments', cc.where(a),
                           'an id()-based key is only used together with retention of the keyed objects', retained,
                           f'key `{norm(a.value)}` uses addresses; nothing keeps the objects alive, so a recycled '
                           f'address answers for a different object')
    ctx.floor('C14.R2', n, 8, 'memo key derivations')

    # ---- R1 ----------------------------------------------------------------------
    _key_completeness(ctx)

    # ---- R7 ----------------------------------------------------------------------
    _function_attribute_memos(ctx)

    # ---- R6 / R3 -------------------------------------------------------------------
    cg = CallGraph(repo)
    cached = {q: (m, fn) for q, (m, fn) in cg.funcs.items()
              if any(d.split('.')[-1] in ('callable_cached', 'method_cached_arg_by_id') for d in decorator_names(fn))}
    ctx.rule('C14.R6', 'functions wrapped by @callable_cached are only ever called positionally (the memoising wrapper '
             'takes *args; a keyword call is a TypeError), and @method_cached_arg_by_id methods take exactly one '
             'argument')
    nkw = []
    ncalls = 0
    for q in cached:
        for cq, call in cg.callers.get(q, []):
            ncalls += 1
            if call.keywords:
                nkw.append((cq, call))
    ctx.ob('C14.R6', 'callable_cached:positional-call-sites', cc.where(cc.defs['callable_cached']),
           f'{ncalls} resolved call sites of {len(cached)} memoised functions pass no keyword arguments', not nkw,
           f'{nkw[0][0]} calls {norm(nkw[0][1])[:80]} with keywords' if nkw else '')
    for q, (m, fn) in sorted(cached.items()):
        if any(d.split('.')[-1] == 'method_cached_arg_by_id' for d in decorator_names(fn)):
            ctx.ob('C14.R6', f'method_cached_arg_by_id:{q.rsplit(".", 2)[-2]}.{fn.name}:arity', m.where(fn),
                   'takes self and exactly one argument', len(fn.args.args) == 2 and not fn.args.vararg and not fn.args.kwonlyargs, '')
    ctx.floor('C14.R6', len(cached), 40, 'memoised functions')

    ctx.rule('C14.R3', 'a function whose exceptions are memoised (@callable_cached / @method_cached_arg_by_id) does not '
             'transitively (call graph, depth 6) read the module table, live frames, the environment or import '
             'anything: a failure that depends on the environment would be remembered after the environment changed; '
             'the forward-reference resolver stores only on its success path')

    def impure(m, fn):
        for x in walk_shallow(fn):
            # lazily evaluated user text: the value of a PEP 695 alias is computed on first access and raises NameError
            # until every name it mentions is defined; eval() of a stringified hint likewise
            if isinstance(x, ast.Attribute) and x.attr == '__value__' and isinstance(x.ctx, ast.Load):
                return f'evaluates the lazily computed value of a type alias (.__value__) at {m.relpath}:{x.lineno}'
            if isinstance(x, ast.Call) and dotted(x.func) == 'eval' and repo.resolve_name(m, x, 'eval').kind == 'builtin':
                return f'evaluates user text (eval) at {m.relpath}:{x.lineno}'
            d = dotted(x) if isinstance(x, (ast.Attribute, ast.Name)) else None
            if d in IMPURE and not (isinstance(x, ast.Name) and repo.resolve_name(m, x, x.id).kind == 'local'):
                if d in ('globals', 'import_module') and not isinstance(parent(x), ast.Call):
                    continue
                return f'reads {IMPURE[d]} ({d}) at {m.relpath}:{x.lineno}'
        return None
    for q, (m, fn) in sorted(cached.items()):
        chain = cg.transitive(q, impure, depth=6)
        ok = not chain or q in IMPURE_OK
        ctx.ob('C14.R3', f'memoised-failure:{q.replace("beartype.", "")}', m.where(fn),
               'the memoised function (whose exceptions are cached) is independent of the environment', ok,
               ' → '.join(c.replace('beartype.', '') for c in chain)[:300])
    fm = repo.mod('beartype._check.forward.reference._cls.fwdrefmeta')
    for tab in ('_ref_proxy_to_resolved_hint', '_ref_proxy_to_resolved_type'):
        ws = writers.get(f'{fm.name}.{tab}', [])
        for m, fn, st in ws:
            in_handler = any(isinstance(a, ast.ExceptHandler) for a in _ancestors(st, fn))
            ctx.ob('C14.R3', f'fwdref:{tab}:{qualname_of(fn)}:success-only', m.where(st),
                   'the resolution table is written on the success path only', not in_handler, '')

    _stale_alias_and_undo(ctx, repo, tables)
    dedup_exemption(ctx, 'C14.R9')
    repr_dedup(ctx, 'C14.R10')

    # ---- R5 ----------------------------------------------------------------------
    pooled_typestate(ctx, 'C14.R5')


def _ancestors(node, stop):
    p = parent(node)
    while p is not None and p is not stop:
        yield p
        p = parent(p)


def _import_time_only(repo, m, fn) -> bool:
    """``fn`` is a table builder called only at module level of its own module (``_init()``)."""
    if parent(fn) is not m.tree:
        return False
    called_at_top = any(isinstance(c, ast.Call) and dotted(c.func) == fn.name
                        for st in m.tree.body if not isinstance(st, (ast.FunctionDef, ast.AsyncFunctionDef, ast.ClassDef))
                        for c in ast.walk(st))
    if not called_at_top:
        return False
    for other in ast.walk(m.tree):
        if isinstance(other, ast.Call) and dotted(other.func) == fn.name and enclosing_function(other) is not None:
            return False
    return fn.name.startswith('_')


def _lossy(fn, k):
    txt = norm(k)
    for marker in ('get_hint_repr(', 'repr(', 'str(', '.__name__', '.__qualname__'):
        if marker in txt:
            return marker.strip('(.')
    if isinstance(k, ast.Name):
        for a in walk_shallow(fn):
            if isinstance(a, ast.Assign) and dotted(a.targets[0]) == k.id:
                t = norm(a.value)
                for marker in ('get_hint_repr(', 'repr(', 'str('):
                    if marker in t:
                        return marker.strip('(')
    return None


def _returns_cached_instead_of_argument(fn, st) -> bool:
    """The value obtained from the table is assigned to / returned as the function's own
    parameter (the cached object replaces the argument)."""
    ps = set(params_of(fn))
    node = st
    p = parent(st) if not isinstance(st, ast.stmt) else st
    while p is not None and not isinstance(p, ast.stmt):
        p = parent(p)
    if isinstance(p, ast.Assign) and any(dotted(t) in ps for t in p.targets) and isinstance(st, ast.Call):
        return True
    if isinstance(p, ast.Return) and isinstance(st, ast.Call):
        return True
    return False


def _table_ops(fn, names):
    """(stores, removes): module-level table names a function writes into / deletes from, directly."""
    st, rm = set(), set()
    for x in ast.walk(fn):
        if isinstance(x, ast.Assign):
            for t in x.targets:
                if isinstance(t, ast.Subscript) and isinstance(t.value, ast.Name) and t.value.id in names:
                    st.add(t.value.id)
        elif isinstance(x, ast.Delete):
            for t in x.targets:
                if isinstance(t, ast.Subscript) and isinstance(t.value, ast.Name) and t.value.id in names:
                    rm.add(t.value.id)
        elif isinstance(x, ast.Call) and isinstance(x.func, ast.Attribute) and isinstance(x.func.value, ast.Name) \
                and x.func.value.id in names:
            if x.func.attr in ('pop', 'popitem', 'discard', 'remove'):
                rm.add(x.func.value.id)
            elif x.func.attr in ('setdefault', 'update', 'add', 'append'):
                st.add(x.func.value.id)
    return st, rm


def _stale_alias_and_undo(ctx, repo, tables):
    ctx.rule('C14.R8', '(a) a failure is not remembered: in every function of a module that owns a run-time memo table, '
             'when an entry was stored (directly or through a helper of that module) and a later statement on the same '
             'path raises or calls a die_* validator, the entry must have been removed *from that same table* in '
             'between (store → undo → fail); (b) an alias of an element of a table (`v = T[k]`) is not mutated after '
             '`T.clear()` without being re-fetched: the mutation would land in an orphaned object')
    n = 0
    by_mod = {}
    for q in tables:
        by_mod.setdefault(q.rsplit('.', 1)[0], set()).add(q.rsplit('.', 1)[1])
    for mn, names in sorted(by_mod.items()):
        m = repo.mod(mn)
        fns = [x for x in ast.walk(m.tree) if isinstance(x, (ast.FunctionDef, ast.AsyncFunctionDef))]
        summ = {f.name: _table_ops(f, names) for f in fns}
        for f in fns:
            # ---- (a) store -> undo -> fail -------------------------------------------------
            def events(node, f=f):
                out = []
                for c in ([node] if isinstance(node, ast.expr) else ast.walk(node)):
                    if isinstance(c, ast.Call) and isinstance(c.func, ast.Name) and c.func.id in summ and c.func.id != f.name:
                        out += [f'stored:{t}' for t in summ[c.func.id][0]]
                return out

            def kills(node, f=f):
                out = []
                for c in ([node] if isinstance(node, ast.expr) else ast.walk(node)):
                    if isinstance(c, ast.Call) and isinstance(c.func, ast.Name) and c.func.id in summ:
                        out += [f'stored:{t}' for t in summ[c.func.id][1]]
                    if isinstance(c, ast.Delete):
                        out += [f'stored:{t.value.id}' for t in c.targets if isinstance(t, ast.Subscript) and isinstance(t.value, ast.Name)]
                    if isinstance(c, ast.Call) and isinstance(c.func, ast.Attribute) and isinstance(c.func.value, ast.Name) \
                            and c.func.attr in ('pop', 'discard', 'remove'):
                        out.append(f'stored:{c.func.value.id}')
                return out
            if not any(events(st_) for st_ in walk_shallow(f) if isinstance(st_, ast.stmt)):
                continue
            fails = []

            def on_stmt(node, state, fails=fails):
                live = sorted(x for x in state if x.startswith('stored:'))
                if not live:
                    return
                if isinstance(node, ast.Raise):
                    fails.append((node, live))
                elif isinstance(node, ast.Expr) and isinstance(node.value, ast.Call) and (dotted(node.value.func) or '').split('.')[-1].startswith('die_'):
                    fails.append((node, live))
            Flow(events, mode='may', kill=kills, on_stmt=on_stmt).run(f)
            n += 1
            ctx.ob('C14.R8', f'undo-before-fail:{mn.split(".")[-1]}.{qualname_of(f)}', m.where(fails[0][0] if fails else f),
                   'no failing exit is reached while an entry stored on that path is still in its table', not fails,
                   f'`{norm(fails[0][0])[:70]}` can fail while {fails[0][1]} is still memoised: the failure is remembered '
                   f'(the entry was removed from another table, or not at all)' if fails else '')
        # ---- (b) stale alias after clear ---------------------------------------------------
        for f in fns:
            aliases = {}
            for a in walk_shallow(f):
                if isinstance(a, ast.Assign) and isinstance(a.targets[0], ast.Name) and isinstance(a.value, ast.Subscript) \
                        and isinstance(a.value.value, ast.Name) and a.value.value.id in names:
                    aliases.setdefault(a.targets[0].id, a.value.value.id)
            clears = [c for c in walk_shallow(f) if isinstance(c, ast.Call) and isinstance(c.func, ast.Attribute)
                      and c.func.attr == 'clear' and isinstance(c.func.value, ast.Name) and c.func.value.id in set(aliases.values())]
            if not aliases or not clears:
                continue

            def gen(node, aliases=aliases):
                out = []
                for c in ([node] if isinstance(node, ast.expr) else ast.walk(node)):
                    if isinstance(c, ast.Call) and isinstance(c.func, ast.Attribute) and c.func.attr == 'clear' \
                            and isinstance(c.func.value, ast.Name):
                        out += [f'stale:{v}' for v, t in aliases.items() if t == c.func.value.id]
                return out

            def kill(node, aliases=aliases):
                if isinstance(node, ast.Assign) and isinstance(node.targets[0], ast.Name) and node.targets[0].id in aliases:
                    return [f'stale:{node.targets[0].id}']
                return []
            bad = []

            def on_stmt2(node, state, bad=bad, aliases=aliases):
                for c in ast.walk(node) if isinstance(node, (ast.Expr, ast.Assign, ast.AugAssign)) else []:
                    if isinstance(c, ast.Call) and isinstance(c.func, ast.Attribute) and isinstance(c.func.value, ast.Name) \
                            and c.func.value.id in aliases and f'stale:{c.func.value.id}' in state \
                            and c.func.attr in ('add', 'append', 'update', 'setdefault', 'extend', 'insert', '__setitem__'):
                        bad.append((node, c.func.value.id))
                    if isinstance(c, ast.Subscript) and isinstance(c.ctx, ast.Store) and isinstance(c.value, ast.Name) \
                            and c.value.id in aliases and f'stale:{c.value.id}' in state:
                        bad.append((node, c.value.id))
            Flow(gen, mode='may', kill=kill, on_stmt=on_stmt2).run(f)
            n += 1
            ctx.ob('C14.R8', f'alias-refetched-after-clear:{mn.split(".")[-1]}.{qualname_of(f)}', m.where(bad[0][0] if bad else f),
                   'an element alias is re-fetched from its table after the table was cleared and before it is mutated',
                   not bad, f'`{norm(bad[0][0])[:70]}` mutates {bad[0][1]}, which still refers to an element of the table '
                   f'as it was before .clear(): the update is lost' if bad else '')
    ctx.floor('C14.R8', n, 2, 'store/undo/fail functions and cleared-table aliases')


# stores of private attributes on caller-supplied functions that need no ownership check, one reason each
ATTR_MEMO_EXEMPT = {
    'utilcacheobjattr.set_object_attr_cached': 'only reached from the PEP 649/749 annotation shim, which is gated on '
                                               'Python >= 3.14: not executed (and not demonstrable) under the '
                                               'interpreter of this sandbox; suspected to share the defect',
}


def _ancestors(node, stop):
    p = parent(node)
    while p is not None and p is not stop:
        yield p
        p = parent(p)


def _import_time_only(repo, m, fn) -> bool:
    """``fn`` is a table builder called only at module level of its own module (``_init()``)."""
    if parent(fn) is not m.tree:
        return False
    called_at_top = any(isinstance(c, ast.Call) and dotted(c.func) == fn.name
                        for st in m.tree.body if not isinstance(st, (ast.FunctionDef, ast.AsyncFunctionDef, ast.ClassDef))
                        for c in ast.walk(st))
    if not called_at_top:
        return False
    for other in ast.walk(m.tree):
        if isinstance(other, ast.Call) and dotted(other.func) == fn.name and enclosing_function(other) is not None:
            return False
    return fn.name.startswith('_')


def _lossy(fn, k):
    txt = norm(k)
    for marker in ('get_hint_repr(', 'repr(', 'str(', '.__name__', '.__qualname__'):
        if marker in txt:
            return marker.strip('(.')
    if isinstance(k, ast.Name):
        for a in walk_shallow(fn):
            if isinstance(a, ast.Assign) and dotted(a.targets[0]) == k.id:
                t = norm(a.value)
                for marker in ('get_hint_repr(', 'repr(', 'str('):
                    if marker in t:
                        return marker.strip('(')
    return None


def _returns_cached_instead_of_argument(fn, st) -> bool:
    """The value obtained from the table is assigned to / returned as the function's own
    parameter (the cached object replaces the argument)."""
    ps = set(params_of(fn))
    node = st
    p = parent(st) if not isinstance(st, ast.stmt) else st
    while p is not None and not isinstance(p, ast.stmt):
        p = parent(p)
    if isinstance(p, ast.Assign) and any(dotted(t) in ps for t in p.targets) and isinstance(st, ast.Call):
        return True
    if isinstance(p, ast.Return) and isinstance(st, ast.Call):
        return True
    return False


# stores of private attributes on caller-supplied functions that need no ownership check, one reason each
ATTR_MEMO_EXEMPT = {
    'utilcacheobjattr.set_object_attr_cached': 'only reached from the PEP 649/749 annotation shim, which is gated on '
                                               'Python >= 3.14: not executed (and not demonstrable) under the '
                                               'interpreter of this sandbox; suspected to share the defect',
}


def _function_attribute_memos(ctx, RULE='C14.R7', marker=False):
    ctx.rule(RULE, 'memo stored on a caller-supplied function: functools.wraps / update_wrapper copy __dict__, so a '
             'beartype-private attribute written on a function (func.__beartype_* = …, or setattr on a FunctionType) '
             'also appears on every later wraps-copy of it; every reader of such an attribute must verify ownership '
             '(compare an owner token stored with the value — the code object or a weak reference — with the function '
             'it read the attribute from) before trusting it.  Otherwise the answer for the copy depends on whether '
             'the original was inspected earlier')
    repo = ctx.repo
    stores = []
    for mn, m in sorted(repo.modules.items()):
        if '__beartype_' not in m.src and 'setattr(' not in m.src:
            continue
        for fn in [x for x in ast.walk(m.tree) if isinstance(x, (ast.FunctionDef, ast.AsyncFunctionDef))]:
            ps = set(params_of(fn)) - {'self', 'cls', 'mcs'}
            for a in walk_shallow(fn):
                if isinstance(a, ast.Assign):
                    for t in a.targets:
                        if isinstance(t, ast.Attribute) and isinstance(t.value, ast.Name) and t.value.id in ps \
                                and t.attr.startswith('__beartype_'):
                            stores.append((mn, m, fn, a, t.attr, t.value.id))
                elif isinstance(a, ast.Call) and dotted(a.func) == 'setattr' and len(a.args) == 3 \
                        and isinstance(a.args[0], ast.Name) and a.args[0].id in ps:
                    # only stores onto function objects matter (types and modules are not copied by wraps)
                    g = [norm(p_.test) for p_ in _ancestors(a, fn) if isinstance(p_, ast.If)]
                    if any('FunctionType' in x for x in g):
                        stores.append((mn, m, fn, a, None, a.args[0].id))
    n = 0
    # the "already beartyped" marker is not a memo of an answer: it is decided under C13 (idempotence), every
    # other attribute under C14
    stores = [st_ for st_ in stores if (st_[4] == '__beartype_wrapper') == marker]
    for mn, m, fn, a, attr, pv in stores:
        key = f'{mn.split(".")[-1]}.{qualname_of(fn)}'
        n += 1
        if key in ATTR_MEMO_EXEMPT:
            ctx.ob(RULE, f'function-attribute-memo:{key}', m.where(a), 'reviewed exemption', True)
            ctx.note(f'{RULE} exempt {key}: {ATTR_MEMO_EXEMPT[key]}')
            continue
        # readers of that attribute anywhere in the package
        readers = []
        for mn2, m2 in repo.modules.items():
            if attr is None or attr not in m2.src:
                continue
            for f2 in [x for x in ast.walk(m2.tree) if isinstance(x, (ast.FunctionDef, ast.AsyncFunctionDef))]:
                for c in walk_shallow(f2):
                    if isinstance(c, ast.Call) and dotted(c.func) in ('getattr', 'hasattr') and len(c.args) >= 2 \
                            and isinstance(c.args[1], ast.Constant) and c.args[1].value == attr:
                        readers.append((m2, f2, c, norm(c.args[0])))
                    elif isinstance(c, ast.Attribute) and c.attr == attr and isinstance(c.ctx, ast.Load):
                        readers.append((m2, f2, c, norm(c.value)))
        unchecked = []
        for m2, f2, c, owner in readers:
            # an ownership check: an `is` comparison in the reader relating something derived from the value
            # that was read to the function it was read from (the function itself or its code object)
            import re as _re
            held = {norm(c)}
            for a2 in walk_shallow(f2):
                if isinstance(a2, ast.Assign) and isinstance(a2.targets[0], ast.Name) and any(x is c for x in ast.walk(a2.value)):
                    held.add(a2.targets[0].id)
            ok = False
            for cmp_ in [x for x in walk_shallow(f2) if isinstance(x, ast.Compare) and any(isinstance(o, (ast.Is, ast.IsNot)) for o in x.ops)]:
                sides = [norm(cmp_.left)] + [norm(x) for x in cmp_.comparators]
                if any(sd in ('None', 'True', 'False') for sd in sides):
                    continue
                from_value = [sd for sd in sides if any(_re.search(rf'(?<![\w.]){_re.escape(h)}(?![\w])', sd) for h in held)]
                from_owner = [sd for sd in sides if sd not in from_value and _re.search(rf'(?<![\w.]){_re.escape(owner)}(?![\w])', sd)]
                if from_value and from_owner:
                    ok = True
            if not ok:
                unchecked.append((m2, f2, c))
        ctx.ob(RULE, f'function-attribute-memo:{key}:{attr}', m.where(a),
               f'every reader of {attr} verifies that the value belongs to the function it was read from',
               bool(readers) and not unchecked,
               (f'{qualname_of(unchecked[0][1])} ({unchecked[0][0].relpath}:{unchecked[0][2].lineno}) trusts the attribute as '
                f'found: a functools.wraps copy of a function that was inspected earlier answers with the original\'s value')
               if unchecked else 'no reader found')
    ctx.floor(RULE, n, 1 if marker else 2, 'private attributes stored on caller-supplied functions')


def _ancestors(node, stop):
    p = parent(node)
    while p is not None and p is not stop:
        yield p
        p = parent(p)


# parameters of make_check_expr that may stay outside the memo key, one reason each
KEY_EXEMPT_PARAMS = {
    'call_curr': 'call metadata (scope for forward references / recursion): every reducer that consults it returns a '
                 'HintSane with is_check_expr_cacheable=False, which is conjoined into the flag guarding the store',
}


def _is_local_name(fn, name):
    return any(isinstance(a, ast.Assign) and any(isinstance(t, ast.Name) and t.id == name for t in a.targets) for a in walk_shallow(fn)) \
        or name in params_of(fn)


def _key_completeness(ctx, RULE='C14.R1', only_check_expr=False):
    ctx.rule(RULE, 'key completeness of the explicit memo tables: the key tuple contains every parameter of the '
             'memoised computation, except parameters that only influence the result through a callee whose '
             'cacheability flag is conjoined into the flag that guards the store')
    repo = ctx.repo
    # make_check_expr
    m = repo.mod('beartype._check.code.codemain')
    fn = m.defs.get('make_check_expr')
    ctx.require(fn is not None, 'anchor vanished: make_check_expr')
    # the memo table of make_check_expr is the module-level dictionary it stores into; the key is whatever
    # subscripts that store (found by role, not by the names CACHE_KEY / _HINT_CONF_TO_CHECK_EXPR)
    mod_dicts = {nm for nm, sts in m.assigns.items() if any(isinstance(getattr(s_, 'value', None), (ast.Dict, ast.Call)) for s_ in sts)}
    tstores = [a for a in walk_shallow(fn) if isinstance(a, ast.Assign) and isinstance(a.targets[0], ast.Subscript)
               and isinstance(a.targets[0].value, ast.Name) and a.targets[0].value.id in mod_dicts and not _is_local_name(fn, a.targets[0].value.id)]
    ctx.require(len({norm(a.targets[0].value) for a in tstores}) == 1, 'make_check_expr: expected stores into exactly one module-level memo table')
    TABLE1, KEY1 = norm(tstores[0].targets[0].value), dotted(tstores[0].targets[0].slice)
    keys = [a for a in walk_shallow(fn) if isinstance(a, ast.Assign) and dotted(a.targets[0]) == KEY1]
    ctx.require(len(keys) == 1 and isinstance(keys[0].value, ast.Tuple), f'make_check_expr: the memo key {KEY1} is not one tuple')
    in_key = {dotted(e) for e in keys[0].value.elts}
    for p in params_of(fn):
        if p in in_key:
            ctx.ob(RULE, f'make_check_expr:param:{p}', m.where(keys[0]), f'{p} is part of the memo key', True)
            continue
        # allowed only for the reviewed context parameters whose influence is tracked by the cacheability flag
        if p not in KEY_EXEMPT_PARAMS:
            ctx.ob(RULE, f'make_check_expr:param:{p}', m.where(keys[0]), f'{p} is part of the memo key', False,
                   f'{p} is not in the memo key {KEY1} = {norm(keys[0].value)}: a later call with another {p} is answered with the '
                   f'expression generated for the first one')
            continue
        hm = repo.mod('beartype._check.cls.hint.tree.hinttreecode')
        sf = repo.find_def(hm.name, 'HintTreeCode.sanify_hint_child')
        conj = any(isinstance(a, ast.AugAssign) and isinstance(a.op, ast.BitAnd) and norm(a.target) == 'self.is_check_expr_cacheable'
                   and 'is_check_expr_cacheable' in norm(a.value) for a in walk_shallow(sf))
        uses = [x for x in walk_shallow(fn) if isinstance(x, ast.Name) and x.id == p and isinstance(x.ctx, ast.Load)]
        only_reinit = all(isinstance(parent(u), ast.keyword) or isinstance(parent(u), ast.Call) or
                          isinstance(parent(parent(u)), ast.Assert) or isinstance(parent(u), ast.FormattedValue) for u in uses)
        stores = [a for a in walk_shallow(fn) if isinstance(a, ast.Assign) and isinstance(a.targets[0], ast.Subscript)
                  and dotted(a.targets[0].value) == TABLE1]
        guarded = bool(stores) and all(isinstance(parent(s), ast.If) and 'is_check_expr_cacheable' in norm(parent(s).test) for s in stores)
        ctx.ob(RULE, f'make_check_expr:param:{p}', m.where(keys[0]),
               f'{p} is outside the key but only reaches the result through sanify_hint_child, whose cacheability '
               f'flag is conjoined into the flag guarding the store', conj and only_reinit and guarded,
               f'conjoined: {conj}; only passed on: {only_reinit}; store guarded by the flag: {guarded}')
    if only_check_expr:
        return
    # make_func_checker
    m2 = repo.mod('beartype._check.checkmake')
    f2 = m2.defs.get('make_func_checker')
    ctx.require(f2 is not None, 'anchor vanished: make_func_checker')
    # here the memo table is a parameter (each caller passes its own, C03.R5): the store through a parameter
    ps2 = params_of(f2)
    pstores = [a for a in walk_shallow(f2) if isinstance(a, ast.Assign) and isinstance(a.targets[0], ast.Subscript)
               and isinstance(a.targets[0].value, ast.Name) and a.targets[0].value.id in ps2]
    ctx.require(len({norm(a.targets[0].value) for a in pstores}) == 1, 'make_func_checker: expected stores into exactly one memo-table parameter')
    TABLE2, KEY2 = norm(pstores[0].targets[0].value), dotted(pstores[0].targets[0].slice)
    keys = [a for a in walk_shallow(f2) if isinstance(a, ast.Assign) and dotted(a.targets[0]) == KEY2]
    ctx.require(len(keys) == 1 and isinstance(keys[0].value, ast.Tuple), f'make_func_checker: the memo key {KEY2} is not one tuple')
    in_key = {dotted(e) for e in keys[0].value.elts}
    # the code factory is the one parameter that is called; it is paired with its table by C03.R5
    factory = {c.func.id for c in walk_shallow(f2) if isinstance(c, ast.Call) and isinstance(c.func, ast.Name) and c.func.id in ps2}
    for p in ps2:
        ok = p in in_key or p == TABLE2 or p in factory
        ctx.ob(RULE, f'make_func_checker:param:{p}', m2.where(keys[0]),
               f'{p} is in the key (or is the factory / its own table, paired by C03.R5)', ok, f'key = {sorted(in_key)}')
    stores = [a for a in walk_shallow(f2) if isinstance(a, ast.Assign) and isinstance(a.targets[0], ast.Subscript)
              and dotted(a.targets[0].value) == TABLE2]
    ok = bool(stores) and all(isinstance(parent(s), ast.If) and 'is_func_cacheable' in norm(parent(s).test)
                              and 'is_check_expr_cacheable' in norm(parent(s).test) for s in stores)
    ctx.ob(RULE, 'make_func_checker:store-guarded', m2.where(f2),
           'the checker is stored only when the key is hashable and the expression is cacheable', ok, '')
    # decorator cache
    m3 = repo.mod('beartype._decor.decorcache')
    f3 = m3.defs.get('beartype')
    if f3 is not None:
        stores = [a for a in ast.walk(f3) if isinstance(a, ast.Assign) and any(isinstance(t, ast.Subscript) and dotted(t.value) == '_bear_conf_to_decor' for t in a.targets)]
        ok = bool(stores) and all(dotted([t for t in a.targets if isinstance(t, ast.Subscript)][0].slice) == 'conf' for a in stores)
        ctx.ob(RULE, 'decorcache:keyed-by-conf', m3.where(f3), 'the configured decorator is memoised by its configuration', ok, '')
    # HintSane metaclass
    m4 = repo.mod('beartype._check.cls.hint.hintsane')
    f4 = repo.find_def(m4.name, '_HintSaneMetaclass.__call__')
    stores = [a for a in walk_shallow(f4) if isinstance(a, ast.Assign) and any(isinstance(t, ast.Subscript) and dotted(t.value) == '_HINT_TO_HINTSANE' for t in a.targets)]
    from sa.astutil import path_guards
    kw = f4.args.kwarg.arg if f4.args.kwarg else 'kwargs'
    ok = bool(stores) and all(f'not ({kw})' in path_guards(s_, f4) for s_ in stores)
    ctx.ob(RULE, 'HintSane:memoised-only-without-kwargs', m4.where(f4),
           'HintSane objects are memoised by hint only when no further field is passed', ok, '')


def _descendants(stmts):
    out = []
    for s in stmts:
        out.extend(ast.walk(s))
    return out


def pooled_typestate(ctx, rule):
    ctx.rule(rule, 'typestate acquired → (used) → released of pooled scratch objects (acquire_instance / '
             'acquire_fixed_list / acquire_object_typed): released on every non-raising path, never used after '
             'release, never returned, never stored into a global or an attribute')
    repo = ctx.repo
    n = 0
    ACQ = ('acquire_instance', 'acquire_fixed_list', 'acquire_object_typed')
    REL = ('release_instance', 'release_fixed_list', 'release_object_typed')
    for mn, m in sorted(repo.modules.items()):
        if not any(a in m.src for a in ACQ) or mn.startswith('beartype._util.cache.pool'):
            continue
        for fn in [x for x in ast.walk(m.tree) if isinstance(x, (ast.FunctionDef, ast.AsyncFunctionDef))]:
            acq = [a for a in walk_shallow(fn) if isinstance(a, (ast.Assign, ast.AnnAssign)) and isinstance(a.value, ast.Call)
                   and dotted(a.value.func) in ACQ]
            for a in acq:
                v = dotted(a.targets[0] if isinstance(a, ast.Assign) else a.target)
                if v is None or '.' in v:
                    continue
                n += 1

                def gen(node, v=v):
                    out = []
                    for c in ([node] if isinstance(node, ast.expr) else ast.walk(node)):
                        if isinstance(c, ast.Call) and dotted(c.func) in REL and c.args and dotted(c.args[0]) == v:
                            out.append('rel')
                    if node is a:
                        out.append('acq')
                    return out
                exits = []
                Flow(gen, mode='must', on_exit=lambda node, kind, s: exits.append((node, kind, s))).run(fn)
                leaks = [e for e in exits if e[1] != 'raise' and 'acq' in e[2] and 'rel' not in e[2]]
                ret_v = [e for e in exits if e[1] == 'return' and e[0].value is not None
                         and any(isinstance(x, ast.Name) and x.id == v for x in ast.walk(e[0].value))
                         and not (isinstance(e[0].value, ast.Call) and dotted(e[0].value.func) in ('tuple', 'frozenset', 'len', 'bool'))]
                # a handed-over object (stored in the caller-visible structure) is a transfer, e.g. decor_func returned by make_decor_func
                transfer = bool(ret_v) and dotted(ret_v[0][0].value) == v and fn.name.startswith('make_')
                ok = (not leaks and not ret_v) or transfer
                detail = ''
                if leaks and not transfer:
                    detail = f'exit at line {getattr(leaks[0][0], "lineno", "?")} is reached without releasing {v}'
                elif ret_v and not transfer:
                    detail = f'{v} is returned at line {ret_v[0][0].lineno} although it goes back to the pool'
                ctx.ob(rule, f'pooled:{mn.split(".")[-1]}.{qualname_of(fn)}:{v}', m.where(a),
                       f'pooled object {v} is released on every non-raising path and does not escape', ok, detail)
                # use after release (same block, later statement)
                rels = [c for c in walk_shallow(fn) if isinstance(c, ast.Call) and dotted(c.func) in REL and c.args and dotted(c.args[0]) == v]
                for r_ in rels:
                    st = r_
                    while not isinstance(st, ast.stmt):
                        st = parent(st)
                    blk = None
                    for fld in ('body', 'orelse', 'finalbody'):
                        b = getattr(parent(st), fld, None)
                        if isinstance(b, list) and st in b:
                            blk = b
                    later = blk[blk.index(st) + 1:] if blk else []
                    used = [x for s in later for x in ast.walk(s) if isinstance(x, ast.Name) and x.id == v and isinstance(x.ctx, ast.Load)]
                    ctx.ob(rule, f'pooled:{mn.split(".")[-1]}.{qualname_of(fn)}:{v}:no-use-after-release', m.where(r_),
                           f'{v} is not used after it was released', not used,
                           f'used at line {used[0].lineno} after release' if used else '')
    ctx.floor(rule, n, 6, 'pooled object acquisitions')
    # … and inside the pool itself: once a release function has handed the object back (to the pool's release method /
    # its free list) it no longer owns it — another thread may already have acquired it
    n_rel = 0
    for mn, m in sorted(repo.modules.items()):
        if not mn.startswith('beartype._util.cache.pool'):
            continue
        for fn in [x for x in ast.walk(m.tree) if isinstance(x, (ast.FunctionDef, ast.AsyncFunctionDef)) and 'release' in x.name]:
            ps = [p_ for p_ in params_of(fn) if p_ not in ('self', 'cls')]
            for st in [x for x in ast.walk(fn) if isinstance(x, ast.stmt) and not isinstance(x, (ast.FunctionDef, ast.If, ast.With, ast.For, ast.While, ast.Try))]:
                handed = set()
                for c in ast.walk(st):
                    if isinstance(c, ast.Call):
                        callee = (dotted(c.func) or norm(c.func))
                        last_ = callee.split('.')[-1]
                        # (a hand-back is the pool's release API — release / release_<kind> — or the push onto the pool's list;
                        # bookkeeping helpers such as _note_item_released() merely mention the word)
                        if last_ == 'release' or last_.startswith('release_') or last_.endswith('_release') or callee.endswith('.append'):
                            for a_ in list(c.args) + [k.value for k in c.keywords]:
                                if isinstance(a_, ast.Name) and a_.id in ps:
                                    handed.add(a_.id)
                if not handed:
                    continue
                n_rel += 1
                later = [x for x in ast.walk(fn) if isinstance(x, ast.Name) and x.id in handed and isinstance(x.ctx, ast.Load)
                         and x.lineno > getattr(st, 'end_lineno', st.lineno)]
                ctx.ob(rule, f'pool:{mn.split(".")[-1]}.{qualname_of(fn)}:no-use-after-hand-back', m.where(st),
                       'a release function does not touch the object after handing it back to the pool', not later,
                       f'`{norm(parent(later[0]))[:60]}` at line {later[0].lineno} uses {later[0].id} after it went back to the pool '
                       f'(another thread may own it by then)' if later else '')
    ctx.require(n_rel >= 2, f'{rule}: only {n_rel} hand-back sites found in the pool package')


def dedup_exemption(ctx, RULE):
    """Which hints may be de-duplicated by their repr(): the tester, interpreted over abstract hints."""
    from sa.fold import AObj, FuncVal, _Abort, _Raise, _call_function
    from . import _gen
    F = _gen.engines(ctx)[0].f
    Q = 'beartype._util.hint.utilhinttest'
    mm = ctx.repo.mod(Q)
    fn = F.const(Q, 'is_hint_cacheworthy')
    ctx.require(isinstance(fn, FuncVal), 'anchor vanished: is_hint_cacheworthy')
    ctx.rule(RULE, 'hints that are replaced by an earlier hint with the same repr() (the coercion cache, known finding F3 for '
             'same-named classes) never contain type variables — two TypeVars of one name with different bounds print '
             'alike: is_hint_cacheworthy, interpreted over abstract hints whose __parameters__ is empty / holds a type '
             'variable that is a direct argument / holds one that only occurs nested (list[T] | None, dict[str, list[T]]) × '
             '{PEP 585 builtin, PEP 604 union, neither}, is false whenever __parameters__ is non-empty')

    class _TV(AObj):
        def __repr__(self):
            return '~T'

    class _H(AObj):
        def __init__(self, params, args, kind):
            self.__parameters__, self.__args__, self.kind = params, args, kind

        def __repr__(self):
            return f'<{self.kind} hint args={self.__args__} parameters={self.__parameters__}>'
    saved, saved_b, saved_i = dict(F.stubs), F.builtin_hook, F.isinstance_hook
    F.stubs['beartype._util.hint.pep.proposal.pep585.is_hint_pep585_builtin_subbed'] = lambda e, a, k: a[0].kind == 'pep585'
    F.stubs['beartype._util.hint.pep.proposal.pep484.pep484604union.is_hint_pep604'] = lambda e, a, k: a[0].kind == 'pep604'
    F.stubs['beartype._util.hint.pep.proposal.pep585.is_hint_pep585_generic'] = lambda e, a, k: False
    F.stubs['beartype._util.hint.pep.utilpepget.get_hint_pep_args'] = lambda e, a, k: tuple(a[0].__args__)

    def bh(name, args, kw):
        if name == 'getattr' and args and isinstance(args[0], _H) and isinstance(args[1], str):
            return getattr(args[0], args[1], *args[2:3])
        return saved_b(name, args, kw) if saved_b else NotImplemented
    F.builtin_hook = bh
    F.isinstance_hook = lambda o, c: (('TypeVar' in repr(c)) if isinstance(o, _TV) else (False if isinstance(o, (_H, str)) and 'TypeVar' in repr(c)
                                      else (saved_i(o, c) if saved_i else None)))
    T = _TV()
    inner = _H((T,), (T,), 'pep585')
    try:
        for kind in ('pep585', 'pep604', 'other'):
            for pname, params, args in (('no type variables', (), ('int',)), ('a direct type-variable argument', (T,), (T,)),
                                        ('a nested type variable', (T,), (inner, 'NoneType'))):
                h = _H(params, args, kind)
                try:
                    out = _call_function(F, fn, [h], {}, 1)
                except (_Abort, _Raise) as ex:
                    ctx.require(False, f'cannot interpret is_hint_cacheworthy: {ex}')
                want = (not params) and kind in ('pep585', 'pep604')
                ctx.ob(RULE, f'repr-dedup:{kind}:{pname}', mm.where(fn.node),
                       f'a {kind} hint with {pname} is ' + ('' if want else 'not ') + 'de-duplicated by repr()', bool(out) == want,
                       f'is_hint_cacheworthy({h!r}) evaluates to {out!r}')
    finally:
        F.builtin_hook, F.isinstance_hook = saved_b, saved_i
        F.stubs.clear()
        F.stubs.update(saved)


_REPR_CALLS = {'repr', 'str', 'get_hint_repr'}


def _is_repr_of(e, names):
    return isinstance(e, ast.Call) and (dotted(e.func) or '').split('.')[-1] in _REPR_CALLS and len(e.args) == 1 \
        and isinstance(e.args[0], ast.Name) and e.args[0].id in names


def repr_dedup_sites(tree):
    """Local de-duplication of objects by their repr(): `{repr(x): x for x in xs}`, `seen[repr(x)] = x`,
    `if repr(x) not in seen: … seen.add(repr(x))` — two different objects that print alike collapse into one."""
    out = []
    for n in ast.walk(tree):
        if isinstance(n, ast.DictComp):
            vars_ = {t.id for g in n.generators for t in ast.walk(g.target) if isinstance(t, ast.Name)}
            if _is_repr_of(n.key, vars_) and isinstance(n.value, ast.Name) and n.value.id in vars_:
                out.append(n)
        elif isinstance(n, (ast.For, ast.AsyncFor)):
            vars_ = {t.id for t in ast.walk(n.target) if isinstance(t, ast.Name)}
            for x in ast.walk(n):
                if isinstance(x, ast.Assign) and isinstance(x.targets[0], ast.Subscript) and _is_repr_of(x.targets[0].slice, vars_) \
                        and isinstance(x.value, ast.Name) and x.value.id in vars_:
                    out.append(x)
                if isinstance(x, ast.Call) and isinstance(x.func, ast.Attribute) and x.func.attr in ('add', 'setdefault') and x.args \
                        and _is_repr_of(x.args[0], vars_):
                    out.append(x)
    return out


def repr_dedup(ctx, RULE):
    ctx.rule(RULE, 'no hint or class is de-duplicated by its repr() — `{repr(x): x for x in xs}`, `seen[repr(x)] = x`, '
             '`seen.add(repr(x))` in a loop over the objects — anywhere in the package: two distinct classes created by one '
             'factory print alike (the module-level coercion cache keyed that way is the known finding F3)')
    # the matcher must fire on its positive examples, on every run
    for ex in ('d = {get_hint_repr(h): h for h in hs}', 'for h in hs:\n    seen[repr(h)] = h', 'for h in hs:\n    seen.add(str(h))'):
        ctx.require(len(repr_dedup_sites(ast.parse(ex))) == 1, f'{RULE}: the matcher does not fire on its positive example `{ex}`')
    n = 0
    for mn, m in sorted(ctx.repo.modules.items()):
        if not mn.startswith('beartype.') or mn.startswith('beartype_test'):
            continue
        n += 1
        for site in repr_dedup_sites(m.tree):
            fn = enclosing_function(site)
            ctx.ob(RULE, f'repr-dedup:{mn.split(".")[-1]}.{qualname_of(fn) if fn else "<module>"}', m.where(site),
                   'objects are not collapsed by their printed representation', False,
                   f'`{norm(site)[:90]}`: two distinct objects with one repr() become one')
    ctx.ob(RULE, 'repr-dedup:package-scanned', 'beartype/__init__.py:0', f'{n} modules scanned', n >= 200, f'{n} modules')
