"""C02 — guaranteed detection.

R1  sampler: under is_random the item of a sequence is ``P[R % len(P)]`` with the same
    pith in both positions; without it ``P[0]``;
R2  one draw per call, defined whenever used (scope / signature agreement);
R3  unsampled checks are conjunctive and complete: the generated term rejects at least
    what the reference semantics rejects (structural equality or generated ⇒ reference);
R4  producers of the ignorable sentinel are the reviewed ones (table T1);
R5  an ignorable child elides only the child's test — the parent's own test remains.
"""
from __future__ import annotations

import ast
import collections

from sa.flow import walk_shallow
from sa.repo import norm, qualname_of, enclosing_function, parent
from sa.spec import FAMILY

from . import _gen
from .c01 import prod


def run(ctx):
    sw = _gen.sweep(ctx)
    bad = _gen.bad_pairs(ctx, sw)
    lh = _gen.leaf_hygiene(ctx, sw)
    CODEMAIN = 'beartype/_check/code/codemain.py:0'

    def groups_for(pred, side='detect'):
        groups = collections.defaultdict(lambda: [0, None])
        for d in sw:
            if _gen.tainted(d, bad) or d['status'] != 'ok' or not pred(d):
                continue
            g = groups[(prod(d), d['is_random'])]
            g[0] += 1
            if not d['detect_ok'] and g[1] is None:
                g[1] = f'{d["shape"]}: {d["detect_detail"]}'
        return groups

    seqlike = {k for k, v in FAMILY.items() if v in ('sequence', 'quasi', 'deque')}

    # ---- R1 ----------------------------------------------------------------------
    ctx.rule('C02.R1', 'sampler expression: for sequence-like roots the item read is P[R % len(P)] (is_random) / '
             'P[0] (not is_random) with P the container itself, exactly as in the reference term; for '
             'quasi-iterables the sequence arm uses the same expression')
    g1 = groups_for(lambda d: prod(d) in seqlike)
    for (p, rnd), (n, why) in sorted(g1.items()):
        ctx.ob('C02.R1', f'sampler:{p}:is_random={rnd}', CODEMAIN,
               f'{n} shapes rooted at {p} sample the prescribed item', why is None, why or '')
    ctx.floor('C02.R1', sum(n for n, _ in g1.values()), 150, 'sequence-like shape evaluations')

    # ---- R2 ----------------------------------------------------------------------
    ctx.rule('C02.R2', 'the random draw is defined whenever used and drawn once: generated code mentions the '
             'random variable iff getrandbits is in the wrapper scope; make_func_signature emits the draw iff '
             'getrandbits is in the scope; the explanation path is handed random_int under the same test')
    mism = [d for d in sw if d['status'] == 'ok' and d['uses_random'] != d['has_getrandbits']]
    ctx.ob('C02.R2', 'scope:random-int<->getrandbits', CODEMAIN,
           'uses of the random variable and presence of getrandbits in the scope coincide for every shape',
           not mism, f'{mism[0]["shape"]}: uses_random={mism[0]["uses_random"]} getrandbits_in_scope={mism[0]["has_getrandbits"]}' if mism else '')
    _random_static(ctx)

    # ---- R3 ----------------------------------------------------------------------
    ctx.rule('C02.R3', 'detection: for every shape the generated term equals the reference semantics exactly '
             '(same item strategy, every fixed-tuple position, length test, every literal, every validator and '
             'the metahint conjoined), or implies it')
    for (f, category), (ok, detail, kind) in sorted(lh.items()):
        if ok or kind == 'meaning':
            ctx.ob('C02.R3', f'validator-code:{f}:obj={category}', CODEMAIN,
                   f'code of {f} still tests the object when {{obj}} is a {category} pith expression', ok, detail)
    g3 = groups_for(lambda d: prod(d) not in seqlike)
    for (p, rnd), (n, why) in sorted(g3.items()):
        ctx.ob('C02.R3', f'detects:{p}:is_random={rnd}', CODEMAIN,
               f'{n} shapes rooted at {p} reject what the reference rejects', why is None, why or '')

    # ---- R5 ----------------------------------------------------------------------
    ctx.rule('C02.R5', 'consumers of the ignorable sentinel elide only the child: shapes with an ignorable child '
             'still carry the parent test (origin isinstance / tuple length / other children)')
    g5 = collections.defaultdict(lambda: [0, None])
    for d in sw:
        if 'Ignorable' not in d['shape'] or d['status'] != 'ok' or _gen.tainted(d, bad) \
                or d['shape'].startswith('Annotated'):
            continue
        g = g5[prod(d)]
        g[0] += 1
        if not d['detect_ok'] and g[1] is None:
            g[1] = f'{d["shape"]}: {d["detect_detail"]}'
    for p, (n, why) in sorted(g5.items()):
        ctx.ob('C02.R5', f'ignorable-child:{p}', CODEMAIN, f'{n} shapes rooted at {p} with an ignorable child keep '
               f'the parent test', why is None, why or '')
    ctx.floor('C02.R5', sum(n for n, _ in g5.values()), 50, 'shapes with an ignorable child')

    # ---- R6 ----------------------------------------------------------------------
    ctx.rule('C02.R6', 'exhaustive over the hint-sign universe: every sign whose family in the specification table is a '
             'container receives, when subscripted by a class, exactly the item strategy of that family (sequence: the '
             'index drawn modulo the length / index 0; re-iterable: the first item; mapping: first key and its value; '
             'quasi-iterable: as a sequence when it is one) — a sign filed under a weaker family would leave items '
             'the strategy must see unreachable for every draw')
    rows = _gen.dispatch(ctx)
    n = 0
    for r in rows:
        fam = FAMILY.get(r['sign']) if r['sign'] else None
        if fam is None or not r['subscripted'] or r.get('code') in ('raise', 'none'):
            continue
        n += 1
        ctx.ob('C02.R6', f'strategy:{r["sign"]}', 'beartype/_data/hint/sign/datahintsignset.py:0',
               f'{r["sign"]}[T] is checked with the item strategy of the {fam} family', r.get('matches_reference') is True,
               f'generated: {r.get("term", "")[:200]}')
    ctx.floor('C02.R6', n, 20, 'container signs')

    # ---- R7 ----------------------------------------------------------------------
    # the generated expression depends on conf.is_random (R1): a memo key of make_check_expr that does not
    # contain the configuration hands a non-random caller the random expression (and vice versa) after some
    # histories — the key-completeness rule shared with C14.R1
    from .c14 import _key_completeness
    _key_completeness(ctx, 'C02.R7', only_check_expr=True)

    # ---- R4 ----------------------------------------------------------------------
    _producers(ctx)

    # ---- R8 ----------------------------------------------------------------------
    union_members(ctx, 'C02.R8')
    generic_bases_walk(ctx, 'C02.R10')

    # ---- R9 ----------------------------------------------------------------------
    subclass_child(ctx, 'C02.R9')


def _random_static(ctx):
    """make_func_signature / _get_func_scope_arg_random_int: conditional on the same key."""
    G, V, cat, GC = _gen.engines(ctx)
    F = G.f
    getr = GC.getrandbits_name
    checks = [
        ('beartype._check.signature.sigmake', 'make_func_signature', 'CODE_INIT_RANDOM_INT'),
        ('beartype._check.checkmake', '_get_func_scope_arg_random_int', 'CODE_GET_VIOLATION_RANDOM_INT'),
    ]
    from sa.fold import FuncVal, _Abort, _Raise, _call_function
    from sa.gen import AConf
    gname = F.const('beartype._data.check.code.func.datacodefuncwrap', 'ARG_NAME_GETRANDBITS') \
        if 'ARG_NAME_GETRANDBITS' in F.module_env('beartype._data.check.code.func.datacodefuncwrap') else getr
    saved_i = F.isinstance_hook
    F.isinstance_hook = lambda o, c: True if isinstance(o, AConf) else (saved_i(o, c) if saved_i else None)
    try:
        for modname, fname, const in checks:
            m = ctx.repo.mod(modname)
            fv = F.const(modname, fname)
            ctx.require(isinstance(fv, FuncVal), f'anchor vanished: {modname}.{fname}')
            snippet = F.const(*{'CODE_INIT_RANDOM_INT': ('beartype._data.check.code.func.datacodefuncwrap', 'CODE_INIT_RANDOM_INT'),
                                'CODE_GET_VIOLATION_RANDOM_INT': ('beartype._data.check.code.func.datacodefunccheck', 'CODE_GET_VIOLATION_RANDOM_INT')}[const])
            for present in (True, False):
                scope = {'__beartype_object_1': 'X'}
                if present:
                    scope[gname] = 'getrandbits'
                kw = dict(func_scope=scope)
                if fname == 'make_func_signature':
                    kw.update(func_name='f', code_signature_format='{code_signature_prefix}def {func_name}({code_signature_scope_args}):\n',
                              conf=AConf(is_debug=False))
                try:
                    out = _call_function(F, fv, [], kw, 1)
                except (_Abort, _Raise) as ex:
                    ctx.require(False, f'cannot interpret {fname}: {ex}')
                has = isinstance(out, str) and snippet.strip() != '' and snippet in out
                ctx.ob('C02.R2', f'static:{fname}:{const}:getrandbits-in-scope={present}', m.where(fv.node),
                       f'{fname} emits {const} iff getrandbits is in the scope', has == present,
                       f'evaluates to {out!r}')
    finally:
        F.isinstance_hook = saved_i
    # the draw itself: one assignment of the random variable from getrandbits(32), straight-line
    init = F.const('beartype._data.check.code.func.datacodefuncwrap', 'CODE_INIT_RANDOM_INT')
    try:
        tree = ast.parse('def f():' + init.replace('\n', '\n') + '\n    pass')
        assigns = [n for n in ast.walk(tree) if isinstance(n, ast.Assign)]
        ok = (len(assigns) == 1 and norm(assigns[0].targets[0]) == GC.random_var
              and isinstance(assigns[0].value, ast.Call) and norm(assigns[0].value.func) == getr
              and len(assigns[0].value.args) == 1 and isinstance(assigns[0].value.args[0], ast.Constant)
              and assigns[0].value.args[0].value >= 32)
        detail = norm(assigns[0]) if assigns else 'no assignment'
    except SyntaxError as ex:
        ok, detail = False, f'does not parse: {ex}'
    ctx.ob('C02.R2', 'static:CODE_INIT_RANDOM_INT', 'beartype/_data/check/code/func/datacodefuncwrap.py:0',
           'the draw is one straight-line assignment random_int = getrandbits(N), N ≥ 32 '
           '(every index below 2**32 is reachable as R % len)', ok, detail)
    ctx.assume('R % n with R uniform on 32 bits reaches every residue for n ≤ 2**32')


def _producers(ctx):
    ctx.rule('C02.R4', 'every producer of the ignorable sentinel (return HINT_SANE_IGNORABLE, and table entries '
             'mapping a hint to it) under beartype/_check/convert is one of the reviewed producers: matched by '
             'function and normalised dominating guard (fail-closed for new producers)')
    from .c02_t1 import T1 as TABLE
    found = []
    for mn, m in ctx.repo.modules.items():
        if not mn.startswith('beartype._check.convert'):
            continue
        if 'HINT_SANE_IGNORABLE' not in m.src:
            continue
        for n in ast.walk(m.tree):
            if isinstance(n, ast.Return) and n.value is not None and _mentions(n.value, 'HINT_SANE_IGNORABLE'):
                fn = enclosing_function(n)
                guards = _guards(n, fn)
                found.append((m, n, getattr(fn, 'name', '<module>'), ' and '.join(guards) or '<unconditional>',
                              norm(n.value)))
            elif isinstance(n, ast.Dict):
                for k, v in zip(n.keys, n.values):
                    if k is not None and _mentions(v, 'HINT_SANE_IGNORABLE') and not isinstance(v, (ast.Lambda,)):
                        found.append((m, v, '<table>', f'key {norm(k)}', norm(v)))
            elif isinstance(n, ast.Assign) and _mentions(n.value, 'HINT_SANE_IGNORABLE') \
                    and isinstance(n.value, ast.Name) and enclosing_function(n) is not None:
                # ``hint_sane = HINT_SANE_IGNORABLE`` later returned
                fn = enclosing_function(n)
                guards = _guards(n, fn)
                found.append((m, n, fn.name, ' and '.join(guards) or '<unconditional>', norm(n)))
    for m, node, fname, guard, text in found:
        key = f'{m.name.split(".")[-1]}.{fname}:{_fingerprint(ctx, m, node, guard)}'
        reason = TABLE.get(key)
        ctx.ob('C02.R4', f'producer:{key}', m.where(node),
               'producer of the ignorable sentinel is a reviewed one', reason is not None,
               f'unreviewed producer `{text}` under path condition `{guard}`' if reason is None else '')
    ctx.floor('C02.R4', len(found), 10, 'producers of the ignorable sentinel')


def _mentions(e, name):
    return any(isinstance(x, ast.Name) and x.id == name for x in ast.walk(e))


def _guards(node, fn):
    """Normalised path condition of ``node`` inside ``fn``: tests of the enclosing ``if`` /
    ``elif`` / conditional-expression arms, plus the negation of every earlier sibling
    ``if`` whose body always leaves (return / raise / continue) — outermost first."""
    out = []
    child = node
    p = parent(node)
    while p is not None:
        if isinstance(p, ast.If):
            if any(child is s for s in p.body):
                out.append(norm(p.test))
            elif any(child is s for s in p.orelse):
                out.append(f'not ({norm(p.test)})')
        elif isinstance(p, ast.IfExp):
            if child is p.body:
                out.append(norm(p.test))
            elif child is p.orelse:
                out.append(f'not ({norm(p.test)})')
        # earlier siblings in the same block that always leave
        for fld in ('body', 'orelse', 'finalbody'):
            blk = getattr(p, fld, None)
            if isinstance(blk, list) and any(child is s for s in blk):
                pre = []
                for s in blk:
                    if s is child:
                        break
                    if isinstance(s, ast.If) and s.body and isinstance(s.body[-1], (ast.Return, ast.Raise, ast.Continue)) \
                            and not s.orelse:
                        pre.append(f'not ({norm(s.test)})')
                out.extend(reversed(pre))
        if p is fn:
            break
        child = p
        p = parent(p)
    return out[::-1]


def _fingerprint(ctx, m, node, guard: str) -> str:
    """Rename-proof summary of a path condition: the module-level names (predicates, signs,
    constants) it mentions and whether each enclosing test is negated — local variable and
    parameter names are dropped."""
    from sa.repo import _is_local
    if guard in ('<unconditional>',) or guard.startswith('key '):
        return guard
    fn = enclosing_function(node)
    try:
        tree = ast.parse(guard, mode='eval')
    except SyntaxError:
        return guard
    names = []
    for n in ast.walk(tree):
        if isinstance(n, ast.Name):
            if fn is not None and _is_local(fn, n.id):
                continue
            names.append(n.id)
        elif isinstance(n, ast.Attribute) and isinstance(n.value, ast.Name) and n.value.id[:1].isupper():
            names.append(f'{n.value.id}.{n.attr}')
    out = []
    for x in names:
        if x not in out:
            out.append(x)
    neg = guard.count('not ')
    return ','.join(sorted(out)) + f'|neg={neg}'


def union_members(ctx, RULE):
    """The union production, interpreted on crafted unions: every member gets its own check — a member that is a class
    *and* a PEP hint (a user generic) is checked deeply; members that sanify to one hint with different type-variable
    tables stay different members.  Shared by C01 (a collapsed member is rejected although it conforms) and C02 (a
    shallowly checked generic accepts what violates its bases)."""
    from sa.gen import AConf
    G, V, cat, GC = _gen.engines(ctx)
    C = G.cls
    UNION = 'beartype/_check/code/_pep/pep484/codepep484604union.py:0'
    ctx.rule(RULE, 'union members, decided by interpreting the union production on crafted unions: (a) a user generic — a '
             'class that is also a PEP hint with bases to check — is enqueued for a deep check, not folded into the '
             'shallow isinstance tuple; (b) two parametrisations of one generic, which sanify to the same hint with '
             'different type-variable tables, are two members with two checks; (c) plain classes go into one '
             'isinstance test, and a union of a plain class and a container checks the container deeply')

    def run(h):
        r = G.run(h, AConf(is_random=True))
        ctx.require(r.raised is None and r.code is not None, f'cannot generate code for the crafted union {h.shape()}: {r.raised}')
        # (the root hint itself is enqueued first: not a member)
        keep = [i for i, (_, c) in enumerate(r.children) if c is not h]
        r.children = [r.children[i] for i in keep]
        r.children_sane = [r.children_sane[i] for i in keep if i < len(r.children_sane)]
        return r
    # (a)
    gen = G.generic(G.subscripted('HintSignList', C('I')))
    gen.is_type = True
    r = run(G.union(gen, C('X')))
    ctx.ob(RULE, 'union:generic-class-member-checked-deeply', UNION,
           'a member that is both a class and a PEP hint is enqueued as a child hint', any(h is gen for _, h in r.children),
           f'children enqueued: {[getattr(h, "label", h) for _, h in r.children]}; code {r.code[:160]!r}')
    # (b)
    g0 = G.subscripted('HintSignList', C('I'))
    m1 = G.subscripted('HintSignPep484585GenericSubbed', C('A1'), reduces_to=(g0, {'T': 'int'}))
    m2 = G.subscripted('HintSignPep484585GenericSubbed', C('A2'), reduces_to=(g0, {'T': 'str'}))
    r = run(G.union(m1, m2))
    tables = [tuple(sorted(getattr(s, 'typearg_to_hint', {}).items())) for s in r.children_sane if getattr(s, 'hint', None) is g0]
    ctx.ob(RULE, 'union:parametrisations-stay-distinct', UNION,
           'members that sanify to one hint under different type-variable tables are each enqueued with their own table',
           sorted(tables) == [(('T', 'int'),), (('T', 'str'),)], f'tables of the enqueued members: {tables}')
    # (c)
    r = run(G.union(C('X'), C('Y')))
    ctx.ob(RULE, 'union:plain-classes-shallow', UNION, 'plain classes need no child check', not r.children,
           f'children enqueued: {[getattr(h, "label", h) for _, h in r.children]}')
    lst = G.subscripted('HintSignList', C('I'))
    r = run(G.union(C('X'), lst))
    ctx.ob(RULE, 'union:container-member-checked-deeply', UNION, 'a container member of a union is enqueued as a child hint',
           [h for _, h in r.children if h is lst] != [], f'children enqueued: {[getattr(h, "label", h) for _, h in r.children]}')
    # (d)
    _union_parent_metadata(ctx, RULE, G, run, UNION)


def _union_parent_metadata(ctx, RULE, G, run, UNION):
    """(d) of union_members: under which parent metadata the members of a flattened union are sanified."""
    C = G.cls
    lst = G.subscripted('HintSignList', C('I'))
    inner = G.union(C('F'), G.subscripted('HintSignSet', C('J')))
    m = G.subscripted('HintSignPep484585GenericSubbed', C('M'), reduces_to=(inner, {}))
    for order, members in (('nested-union-last', (lst, m)), ('nested-union-first', (m, lst))):
        root = G.union(*members)
        r = run(root)
        par = {}
        for s_ in r.children_sane:
            p_ = getattr(s_, 'passed_parent', None)
            par[getattr(s_.hint, 'label', repr(s_.hint))] = getattr(p_, 'hint', None)
        ok = par.get('List') is root and par.get('Set') is inner
        ctx.ob(RULE, f'union:members-sanified-under-their-own-parent:{order}', UNION,
               'a direct member of a union is sanified under the union\'s metadata and a member of a nested union (a member that '
               'reduced to a union: an overridden hint) under that nested union\'s — whatever the order of the members (the '
               'recursion guard of an expanded override must not leak onto sibling members)', ok,
               f'List sanified under {"the union" if par.get("List") is root else "the nested union" if par.get("List") is inner else par.get("List")!r}, '
               f'Set under {"the nested union" if par.get("Set") is inner else "the union" if par.get("Set") is root else par.get("Set")!r}')


def subclass_child(ctx, RULE):
    """type[T]: which class the generated issubclass() test uses — the real getter, interpreted."""
    from sa.fold import AObj, FuncVal, Sym, _Abort, _Raise, _call_function
    from sa.gen import ASane
    G, V, cat, GC = _gen.engines(ctx)
    F = G.f
    Q = 'beartype._check.pep.pep484585.checkpep484585subclass'
    mm = ctx.repo.mod(Q)
    saved = dict(F.stubs)
    F.stubs.pop(f'{Q}.get_hint_pep484585_subclass_hint_child_sanified', None)     # interpret the real one here
    fn = F.const(Q, 'get_hint_pep484585_subclass_hint_child_sanified')
    ctx.require(isinstance(fn, FuncVal), 'anchor vanished: get_hint_pep484585_subclass_hint_child_sanified')
    ctx.rule(RULE, 'type[T] tests issubclass against T itself, decided by interpreting the child getter of the subclass '
             'production over T ∈ {a plain class, a metaclass, the builtin `type`, `object`, an ignorable hint, a union '
             'of classes}: only an ignorable T widens the test to `object`; `type[type]` keeps `type` (not every class is '
             'a subclass of `type`)')

    class _Tree(AObj):
        def __init__(self, hint):
            self.hint_curr = AObj()
            self.hint_curr.hint_sane = ASane(hint)
            self.exception_prefix = ''

        def sanify_hint_child(self, h, *a, **k):
            return G.IGNORABLE if getattr(h, 'ignorable', False) else ASane(h)
    saved_i = F.isinstance_hook
    F.isinstance_hook = lambda o, c: True if isinstance(o, _Tree) else (saved_i(o, c) if saved_i else None)
    F.stubs['beartype._util.cls.pep.clspep3119.is_object_issubclassable'] = lambda e, a, k: True
    F.stubs['beartype._util.cls.pep.clspep3119.die_unless_object_issubclassable'] = lambda e, a, k: None
    try:
        X, Y = G.cls('X'), G.cls('Y')
        cases = {'a plain class': (X, X), 'a metaclass': (G.cls('Meta'), None), 'the builtin type': (G.builtin_cls('type'), None),
                 'the builtin object': (G.builtin_cls('object'), None), 'an ignorable hint': (G.ignorable(), Sym('builtin', 'object')),
                 'a union of classes': (G.union(X, Y), (X, Y))}
        for name, (child, want) in cases.items():
            h = G.subscripted('HintSignType', child, superclass=child)
            try:
                out = _call_function(F, fn, [_Tree(h)], {}, 1)
            except (_Abort, _Raise) as ex:
                ctx.require(False, f'cannot interpret {fn.qual} for type[{name}]: {ex}')
            want = child if want is None else want
            ok = out is want or out == want or (isinstance(out, tuple) and isinstance(want, tuple) and len(out) == len(want)
                                                and all(a is b for a, b in zip(out, want)))
            ctx.ob(RULE, f'type[T]:superclass:{name}', mm.where(fn.node),
                   f'for T = {name} the subclass test uses ' + ('`object`' if name == 'an ignorable hint' else 'T itself'),
                   ok, f'evaluates to {out!r}, expected {want!r}')
    finally:
        F.isinstance_hook = saved_i
        F.stubs.clear()
        F.stubs.update(saved)


def generic_bases_walk(ctx, RULE):
    """The walk over the pseudo-superclasses of a user generic, interpreted on a three-level hierarchy with scripted helpers:
    each base is sanified against the metadata of the generic that declares it (whose type-variable table binds the base's
    type variables) — shared by C01 (a wrong table rejects conforming instances) and C02 (a dropped table makes the base
    ignorable: a shallow isinstance only)."""
    from sa.fold import AObj, FuncVal, _Abort, _Raise, _call_function
    G = _gen.engines(ctx)[0]
    F = G.f
    Q = 'beartype._check.pep.pep484585.checkpep484585generic'
    m = ctx.repo.mod(Q)
    env = F.module_env(Q)
    fn = env.get('get_hint_pep484585_generic_unsubbed_bases_unerased')
    ctx.require(isinstance(fn, FuncVal), 'anchor vanished: get_hint_pep484585_generic_unsubbed_bases_unerased')
    ctx.rule(RULE, 'the pseudo-superclasses of a user generic, decided by interpreting the walk over them on the hierarchy '
             'Leaf[int] → Middle[str] → list[T] (and a second branch Leaf → Other → dict[K, V]) with scripted helpers: every base is '
             'sanified with, as its parent metadata, the sanified metadata of the generic that lists it among its bases — '
             'list[T] with Middle\'s (T bound to str), never with Leaf\'s (T bound to int) — and every non-generic base is '
             'returned exactly once with that metadata')

    class _Sane(AObj):
        def __init__(self, hint, parent):
            self.hint, self.parent = hint, parent

        def __repr__(self):
            return f'<sane {self.hint} under {getattr(self.parent, "hint", self.parent)}>'
    BASES = {'Leaf': ['Middle', 'Other'], 'Middle': ['list[T]'], 'Other': ['dict[K, V]', 'Deep'], 'Deep': ['set[T]']}
    USER = {'Leaf', 'Middle', 'Other', 'Deep'}
    log = []

    def sanify(*a, **k):
        s_ = _Sane(k.get('hint'), k.get('hint_parent_sane'))
        log.append(s_)
        return s_
    names = {'get_hint_pep484585_generic_bases_unerased': lambda *a, **k: tuple(BASES.get(k.get('hint', a[0] if a else None), ())),
             'get_hint_pep484585_generic_base_extrinsic_sign_or_none': lambda *a, **k: None,
             'sanify_hint_child': sanify,
             'is_hint_pep484585_generic_user': lambda h, *a, **k: h in USER,
             'get_hint_pep_sign_or_none': lambda h, *a, **k: ('SIGN', h)}
    saved = {}
    for nm, py in names.items():
        v = env.get(nm)
        ctx.require(isinstance(v, FuncVal), f'anchor vanished: {nm} in the generic-bases walker')
        saved[v.qual] = F.stubs.get(v.qual)
        F.stubs[v.qual] = (lambda py: (lambda e, a, k: py(*a, **k)))(py)
    saved_i = F.isinstance_hook
    F.isinstance_hook = lambda o, c: True if isinstance(o, _Sane) else (saved_i(o, c) if saved_i else None)
    root = _Sane('Leaf', None)
    try:
        try:
            out = _call_function(F, fn, ['CALL', root, 'CONF', '', 'EXC'], {}, 1)
        except (_Abort, _Raise) as ex:
            ctx.require(False, f'cannot interpret {fn.qual}: {ex}')
    finally:
        F.isinstance_hook = saved_i
        for q, old in saved.items():
            if old is None:
                F.stubs.pop(q, None)
            else:
                F.stubs[q] = old
    declared_by = {b: g for g, bs in BASES.items() for b in bs}
    n = 0
    for s_ in log:
        n += 1
        want = declared_by.get(s_.hint)
        got = getattr(s_.parent, 'hint', None)
        ctx.ob(RULE, f'generic-bases:sanified-under-declaring-generic:{s_.hint}', m.where(fn.node),
               f'{s_.hint} is sanified under the metadata of {want}, which declares it', got == want, f'sanified under {got!r}')
    leaves = sorted(str(x[0].hint) for x in out) if isinstance(out, tuple) else None
    ctx.ob(RULE, 'generic-bases:every-leaf-base-once', m.where(fn.node), 'every non-generic pseudo-superclass is returned exactly once',
           leaves == ['dict[K, V]', 'list[T]', 'set[T]'], f'returned {leaves}')
    ctx.floor(RULE, n, 6, 'pseudo-superclasses sanified')
