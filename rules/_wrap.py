"""Wrapper-level facts shared by C03, C04, C08 and C10: abstract callables, generated wrapper
sources (sa.wrapgen) and their syntax-tree facts (sa.wrapcheck)."""
from __future__ import annotations

import itertools

from sa.gen import AConf
from sa.repo import AnalysisError
from sa.wrapcheck import analyse
from sa.wrapgen import ACode, AFunc, NORETURN, WrapperGenerator

from . import _gen

_CACHE = {}

# (posonly, flex, vararg, kwonly, varkw)
SIGNATURES = [
    (('a',), (), None, (), None),
    (('a',), ('b',), None, (), None),
    ((), ('b',), None, (), None),
    ((), ('a', 'b', 'c'), None, (), None),
    ((), (), 'rest', (), None),
    ((), ('a',), 'rest', (), None),
    ((), (), None, ('k',), None),
    ((), (), None, (), 'kw'),
    (('a',), ('b', 'c'), 'rest', ('k', 'l'), 'kw'),
    ((), ('b',), None, ('k',), 'kw'),
    (('a', 'p'), (), None, (), 'kw'),
    (('a',), ('b',), 'rest', (), 'kw'),
]


def names(ctx):
    G, V, cat, GC = _gen.engines(ctx)
    F = G.f
    mod = 'beartype._data.check.code.datacodename'
    out = {k: F.const(mod, v) for k, v in {
        'PITH_ROOT': 'VAR_NAME_PITH_ROOT', 'FUNC': 'ARG_NAME_FUNC', 'GET_VIOLATION': 'ARG_NAME_GET_VIOLATION',
        'VIOLATION': 'VAR_NAME_VIOLATION', 'ARGS_LEN': 'VAR_NAME_ARGS_LEN', 'RANDOM_INT': 'VAR_NAME_RANDOM_INT',
        'GETRANDBITS': 'ARG_NAME_GETRANDBITS', 'WARN': 'ARG_NAME_WARN', 'KEYWORDABLE': 'ARG_NAME_ARGS_NAME_KEYWORDABLE',
        'CALL_META': 'ARG_NAME_CALL_META', 'CONF': 'ARG_NAME_CONF',
    }.items()}
    for k, v in out.items():
        if not isinstance(v, str):
            raise AnalysisError(f'datacodename constant for {k} did not fold to a string')
    return out


def wrapgen(ctx) -> WrapperGenerator:
    key = ('wg', id(ctx.repo))
    if key not in _CACHE:
        G, V, cat, GC = _gen.engines(ctx)
        _CACHE[key] = WrapperGenerator(G)
    return _CACHE[key]


def functions(ctx):
    """Abstract callables: every signature × annotation pattern × return annotation × kind."""
    G, V, cat, GC = _gen.engines(ctx)
    C = G.cls
    out = []
    rets = {'none': None, 'class': C('R'), 'ignorable': G.ignorable(), 'noreturn': NORETURN,
            'deep': G.subscripted('HintSignList', C('RI'))}
    for si, (posonly, flex, vararg, kwonly, varkw) in enumerate(SIGNATURES):
        params = list(posonly) + list(flex) + ([vararg] if vararg else []) + list(kwonly) + ([varkw] if varkw else [])
        patterns = {
            'all': {p: C(f'T_{p}') for p in params},
            'last-only': {params[-1]: C(f'T_{params[-1]}')},
            'first-ignorable': {**{p: C(f'T_{p}') for p in params[1:]}, params[0]: G.ignorable()},
            'deep-first': {**{p: C(f'T_{p}') for p in params[1:]}, params[0]: G.subscripted('HintSignList', C('I'))},
        }
        for pname, ann in patterns.items():
            for rname in (('class', 'none') if pname != 'all' else tuple(rets)):
                kinds = ('sync', 'coro', 'gen', 'agen') if (pname == 'all' or si in (2, 8)) else ('sync',)
                for kind in kinds:
                    if rname == 'noreturn' and kind in ('gen', 'agen'):
                        continue
                    a = dict(ann)
                    r = rets[rname]
                    if r is not None:
                        if kind == 'gen' and rname in ('class', 'deep'):
                            r = G.shallow('HintSignGenerator')
                        if kind == 'agen' and rname in ('class', 'deep'):
                            r = G.shallow('HintSignAsyncGenerator')
                        a['return'] = r
                    f = AFunc(f'f{si}', posonly, flex, vararg, kwonly, varkw, kind, a)
                    f.pattern, f.ret_kind = pname, rname
                    out.append(f)
    # functools.wraps adapters: the decorated callable is a signature-transparent wrapper (*args, **kwargs) of
    # its own kind around a callable of another kind; hints and parameters are those of the wrapped callable,
    # the kind of the generated wrapper must be the adapter's
    for outer_kind, inner_kind in (('coro', 'sync'), ('sync', 'coro'), ('agen', 'gen'), ('gen', 'sync'), ('sync', 'sync')):
        ann = {'p': C('T_p'), 'x': C('T_x'), 'k': C('T_k'), 'return': C('R')}
        if outer_kind == 'gen':
            ann['return'] = G.shallow('HintSignGenerator')
        if outer_kind == 'agen':
            ann['return'] = G.shallow('HintSignAsyncGenerator')
        inner = AFunc('inner', ('p',), ('x',), None, ('k',), None, inner_kind, ann)
        f = AFunc(f'adapter_{outer_kind}_around_{inner_kind}', ('p',), ('x',), None, ('k',), None, outer_kind, ann)
        f.__code__ = ACode(f.__name__, (), (), (), 'args', 'kwargs', outer_kind)
        f.__wrapped__ = inner
        f.pattern, f.ret_kind = 'all', 'class'
        out.append(f)
    # code-object flags that do not decide the kind: a generator function passed through types.coroutine()
    # (CO_ITERABLE_COROUTINE) is still a generator function; nested / closure-free functions (CO_NESTED, CO_NOFREE)
    # are whatever their kind flag says
    for kind, extra, nm in (('gen', 0x100, 'types_coroutine_generator'), ('sync', 0x10 | 0x40, 'nested_sync'),
                            ('coro', 0x10 | 0x40, 'nested_coro'), ('agen', 0x10, 'nested_agen')):
        ann = {'x': C('T_x'), 'return': C('R')}
        if kind == 'gen':
            ann['return'] = G.shallow('HintSignGenerator')
        if kind == 'agen':
            ann['return'] = G.shallow('HintSignAsyncGenerator')
        f = AFunc(nm, (), ('x',), None, (), None, kind, ann)
        f.__code__.co_flags |= extra
        f.pattern, f.ret_kind = 'all', 'class'
        out.append(f)
    # generators annotated by the weaker protocols they also satisfy: the wrapper must be the same bidirectional one
    for kind, sign in (('agen', 'HintSignAsyncIterator'), ('agen', 'HintSignAsyncIterable'), ('gen', 'HintSignIterator'), ('gen', 'HintSignIterable')):
        for sub_ in (False, True):
            ann = {'x': C('T_x'), 'return': (G.subscripted(sign, C('Y')) if sub_ else G.shallow(sign))}
            f = AFunc(f'{kind}_returning_{sign[len("HintSign"):]}{"_subscripted" if sub_ else ""}', (), ('x',), None, (), None, kind, ann)
            f.pattern, f.ret_kind = 'all', 'class'
            out.append(f)
    # pseudo-callables: the decorated callable is the bound __call__ of an object — it has a code object of its own kind but is
    # no function object
    for kind in ('coro', 'gen', 'agen', 'sync'):
        ann = {'x': C('T_x'), 'return': C('R')}
        if kind == 'gen':
            ann['return'] = G.shallow('HintSignGenerator')
        if kind == 'agen':
            ann['return'] = G.shallow('HintSignAsyncGenerator')
        f = AFunc(f'pseudo_callable_{kind}', (), ('x',), None, (), None, kind, ann)
        f.is_function = False
        f.pattern, f.ret_kind = 'all', 'class'
        out.append(f)
    # unannotated callable and return-only callable
    out.append(AFunc('bare', (), ('x',), None, (), None, 'sync', {}))
    out[-1].pattern, out[-1].ret_kind = 'none', 'none'
    out.append(AFunc('retonly', (), ('x',), None, (), None, 'sync', {'return': C('R')}))
    out[-1].pattern, out[-1].ret_kind = 'none', 'class'
    return out


def wrappers(ctx, conf_kw: dict | None = None):
    """[(AFunc, WrapResult, WrapperFacts | None)] for the default configuration (cached)."""
    key = ('wrappers', id(ctx.repo), tuple(sorted((conf_kw or {}).items())))
    if key in _CACHE:
        return _CACHE[key]
    W = wrapgen(ctx)
    N = names(ctx)
    out = []
    for f in functions(ctx):
        r = W.run(f, AConf(**(conf_kw or {})))
        facts = analyse(r.code, N) if r.code else None
        out.append((f, r, facts))
    _CACHE[key] = out
    return out
