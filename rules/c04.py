"""C04 — the wrapper is transparent and binds like Python.

Decided on the *generated wrapper source* obtained by abstractly interpreting
``generate_code`` for every abstract signature × annotation pattern × return kind ×
callable kind (rules/_wrap.py), as syntax-tree facts:

R1  every parameter kind is localised from the right source, and the check of an unpassed
    parameter is guarded (defaults are never checked);
R2  index and name provenance: ``args[i]`` uses the parameter's true position, ``kwargs.get``
    its true name; the keywordable set is exactly the flexible + keyword-only names;
R3  exactly one call-through with exactly the caller's arguments, not inside a ``try``,
    ``args`` / ``kwargs`` never modified, wrapper signature ``(*args, <hidden>, **kwargs)``;
R4  parameter checks precede the call, the return check follows it, the returned value is
    the value the call produced.
"""
from __future__ import annotations

import ast

from sa.astutil import dotted
from sa.repo import norm
from sa.wrapcheck import call_is_passthrough, in_try_body
from sa.wrapgen import NORETURN

from . import _wrap

WRAPMAIN = 'beartype/_decor/_nontype/_wrap/wrapmain.py:0'
TEMPL = 'beartype/_data/check/code/func/datacodefuncwrap.py:0'


def _const(e):
    return e.value if isinstance(e, ast.Constant) else None


def run(ctx):
    N = _wrap.names(ctx)
    ws = _wrap.wrappers(ctx)
    PITH, SENT, ALEN, KWABLE = N['PITH_ROOT'], N['GET_VIOLATION'], N['ARGS_LEN'], N['KEYWORDABLE']

    ctx.rule('C04.R1', 'per parameter kind the root pith is localised from the right source: positional-only from '
             'args[i] under `args_len > i`; flexible from args[i] under the same test else kwargs.get(name, SENTINEL) '
             'with the check under `is not SENTINEL`; keyword-only from kwargs.get(name, SENTINEL) likewise; *args '
             'from args[i:]; **kwargs from kwargs[k] for k in kwargs.keys() - keywordable')
    ctx.rule('C04.R2', 'i is the parameter\'s position among the positional parameters of the decorated signature '
             'and name is its name; the keywordable set placed in the scope is exactly {flexible and keyword-only '
             'names} and exists iff the callable has **kwargs')
    ctx.rule('C04.R3', 'the wrapper calls the wrappee exactly once as func(*args, **kwargs), outside any try body; '
             'args and kwargs are never assigned, deleted or mutated; the wrapper signature is '
             '(*args, hidden keyword-only defaults name=name, **kwargs)')
    ctx.rule('C04.R4', 'every parameter check precedes the call-through, the return check follows it; a plain '
             'callable returns the very name bound to the call result; no assignment expression targets the root pith')

    agg = {}   # (rule, key) -> [n, first failure]

    def note(rule, key, ok, detail, where=WRAPMAIN):
        a = agg.setdefault((rule, key, where), [0, None])
        a[0] += 1
        if not ok and a[1] is None:
            a[1] = detail

    n_sites = 0
    for f, r, facts in ws:
        desc = f.describe()
        ann = {k: v for k, v in f.__annotations__.items()}
        checked = [p for p, h in ann.items() if p != 'return' and not getattr(h, 'ignorable', False)]
        if r.raised is not None:
            note('C04.R3', 'wrapper-generated', False, f'{desc}: generation raises {r.raised} at {r.raised_where}')
            continue
        if not r.code:
            # nothing to check: generate_code returns '' and the decorator returns the callable itself
            note('C04.R3', 'wrapper-generated', not checked and f.ret_kind in ('none', 'ignorable'), f'{desc}: no wrapper generated')
            continue
        if facts is None or not facts.ok:
            note('C04.R3', 'wrapper-generated', False, f'{desc}: {facts.error if facts else "no facts"}')
            continue
        note('C04.R3', 'wrapper-generated', True, '')
        note('C04.R3', 'signature', facts.signature_ok, f'{desc}: {facts.signature_detail}', TEMPL)
        note('C04.R3', 'compiles', facts.compiles, f'{desc}: {facts.compile_error}', TEMPL)
        pos = f.positions()
        sites = {s.pith_name: s for s in facts.sites}
        dup = len(sites) != len(facts.sites)
        note('C04.R1', 'one-check-per-parameter', not dup, f'{desc}: several checks for one parameter')
        for p in checked:
            kind = ('posonly' if p in f.posonly else 'flex' if p in f.flex else 'vararg' if p == f.vararg
                    else 'kwonly' if p in f.kwonly else 'varkw')
            s = sites.get(p)
            n_sites += 1
            if s is None:
                note('C04.R1', f'localise:{kind}', False, f'{desc}: annotated parameter {p} is not checked')
                continue
            loc = s.localise
            guards = [norm(g) for g in s.guards]
            ok1, ok2, d1, d2 = True, True, '', ''
            if kind == 'posonly':
                v = loc.value if isinstance(loc, ast.Assign) else None
                ok1 = isinstance(v, ast.Subscript) and dotted(v.value) == 'args' and isinstance(_const(v.slice), int)
                i = _const(v.slice) if ok1 else None
                ok1 = ok1 and f'{ALEN} > {i}' in guards
                d1 = f'localised by `{norm(loc)}` under {guards}'
                ok2 = i == pos[p]
                d2 = f'index {i}, position {pos[p]}'
            elif kind == 'flex':
                v = loc.value if isinstance(loc, ast.Assign) else None
                ok1 = isinstance(v, ast.IfExp) and isinstance(v.body, ast.Subscript) and dotted(v.body.value) == 'args' \
                    and isinstance(v.orelse, ast.Call) and dotted(v.orelse.func) == 'kwargs.get' and len(v.orelse.args) == 2 \
                    and dotted(v.orelse.args[1]) == SENT
                i = _const(v.body.slice) if ok1 else None
                nm = _const(v.orelse.args[0]) if ok1 else None
                ok1 = ok1 and norm(v.test) == f'{ALEN} > {i}' and f'{PITH} is not {SENT}' in guards
                d1 = f'localised by `{norm(loc)[:120]}` under {guards}'
                ok2 = i == pos[p] and nm == p
                d2 = f'index {i} (position {pos[p]}), keyword {nm!r} (name {p!r})'
            elif kind == 'kwonly':
                v = loc.value if isinstance(loc, ast.Assign) else None
                ok1 = isinstance(v, ast.Call) and dotted(v.func) == 'kwargs.get' and len(v.args) == 2 \
                    and dotted(v.args[1]) == SENT and f'{PITH} is not {SENT}' in guards
                nm = _const(v.args[0]) if isinstance(v, ast.Call) and v.args else None
                d1 = f'localised by `{norm(loc)[:120]}` under {guards}'
                ok2 = nm == p
                d2 = f'keyword {nm!r}, name {p!r}'
            elif kind == 'vararg':
                it = loc.iter if isinstance(loc, ast.For) else None
                ok1 = isinstance(it, ast.Subscript) and dotted(it.value) == 'args' and isinstance(it.slice, ast.Slice) \
                    and it.slice.upper is None and it.slice.step is None
                i = _const(it.slice.lower) if ok1 else None
                d1 = f'localised by `for … in {norm(it) if it is not None else None}`'
                ok2 = i == len(f.posonly) + len(f.flex)
                d2 = f'slice starts at {i}, {len(f.posonly) + len(f.flex)} positional parameters'
            else:
                it = loc.iter if isinstance(loc, ast.For) else None
                ok1 = False
                if isinstance(it, ast.GeneratorExp) and len(it.generators) == 1:
                    g = it.generators[0]
                    ok1 = (isinstance(it.elt, ast.Subscript) and dotted(it.elt.value) == 'kwargs'
                           and dotted(it.elt.slice) == dotted(g.target)
                           and norm(g.iter) == f'kwargs.keys() - {KWABLE}' and not g.ifs)
                d1 = f'localised by `for … in {norm(it)[:100] if it is not None else None}`'
                kw = r.scope.get(KWABLE)
                ok2 = isinstance(kw, set) and kw == set(f.flex) | set(f.kwonly)
                d2 = f'keywordable set {sorted(kw) if isinstance(kw, set) else kw}, expected {sorted(set(f.flex) | set(f.kwonly))}'
            note('C04.R1', f'localise:{kind}', ok1, f'{desc}: parameter {p}: {d1}', TEMPL)
            note('C04.R2', f'provenance:{kind}', ok2, f'{desc}: parameter {p}: {d2}',
                 'beartype/_decor/_nontype/_wrap/_wrapargs.py:0')
            # value handed to the explanation path is the localised pith
            pv = s.kwargs.get('pith_value')
            note('C04.R2', 'violation-receives-pith', pv is not None and dotted(pv) == PITH,
                 f'{desc}: pith_value={norm(pv) if pv is not None else None}')
        kw_present = KWABLE in r.scope
        note('C04.R2', 'keywordable-iff-varkw', kw_present == bool(f.varkw),
             f'{desc}: keywordable set in scope={kw_present}, has **kwargs={bool(f.varkw)}',
             'beartype/_decor/_nontype/_wrap/_wrapargs.py:0')
        if kw_present:
            kw = r.scope.get(KWABLE)
            note('C04.R2', 'keywordable-set', isinstance(kw, set) and kw == set(f.flex) | set(f.kwonly),
                 f'{desc}: keywordable={sorted(kw) if isinstance(kw, set) else kw}',
                 'beartype/_decor/_nontype/_wrap/_wrapargs.py:0')
        # R3
        note('C04.R3', 'one-call-through', len(facts.calls_through) == 1,
             f'{desc}: {len(facts.calls_through)} calls of the wrappee', TEMPL)
        for c in facts.calls_through:
            note('C04.R3', 'call-passes-args-through', call_is_passthrough(c), f'{desc}: {norm(c)}', TEMPL)
            note('C04.R3', 'call-not-in-try', not in_try_body(c, facts.fn), f'{desc}: the call-through is inside a try body', TEMPL)
        note('C04.R3', 'args-kwargs-untouched', not facts.stores_args, f'{desc}: {facts.stores_args[:1]}', TEMPL)
        # R4
        param_sites = [s for s in facts.sites if s.pith_name != 'return']
        ret_sites = [s for s in facts.sites if s.pith_name == 'return']
        if facts.call_order >= 0:
            note('C04.R4', 'param-checks-before-call', all(s.order < facts.call_order for s in param_sites),
                 f'{desc}: a parameter check follows the call-through')
            note('C04.R4', 'return-check-after-call', all(s.order > facts.call_order for s in ret_sites),
                 f'{desc}: the return check precedes the call-through')
        if f.kind == 'sync' and f.ret_kind in ('class', 'deep'):
            call_stmt = None
            for c in facts.calls_through:
                st = c
                while st is not None and not isinstance(st, ast.stmt):
                    st = st._parent
                call_stmt = st
            bound = isinstance(call_stmt, ast.Assign) and dotted(call_stmt.targets[0]) == PITH and call_stmt.value in facts.calls_through
            rets = [x for x in facts.returns if x.value is not None]
            note('C04.R4', 'returns-call-result', bound and len(rets) == 1 and dotted(rets[0].value) == PITH,
                 f'{desc}: call statement `{norm(call_stmt)[:80] if call_stmt else None}`, returns {[norm(x.value) for x in rets]}', TEMPL)
            note('C04.R4', 'return-site-present', len(ret_sites) == 1, f'{desc}: {len(ret_sites)} return checks')
        if f.kind == 'sync' and f.ret_kind in ('none', 'ignorable'):
            rets = [x for x in facts.returns if x.value is not None]
            note('C04.R4', 'unchecked-return-is-the-call', len(rets) == 1 and rets[0].value in facts.calls_through,
                 f'{desc}: returns {[norm(x.value) for x in rets]}', TEMPL)
        walrus_root = [n for n in ast.walk(facts.fn) if isinstance(n, ast.NamedExpr) and dotted(n.target) == PITH]
        note('C04.R4', 'no-walrus-on-root-pith', not walrus_root, f'{desc}: {norm(walrus_root[0]) if walrus_root else ""}')

    for (rule, key, where), (n, why) in sorted(agg.items()):
        ctx.ob(rule, key, where, f'{key} holds for {n} generated wrappers / parameters', why is None, why or '')
    ctx.floor('C04.R1', n_sites, 150, 'parameter check sites')
    ctx.floor('C04.R3', len(ws), 100, 'abstract callables')

    # R1 (table completeness): every ArgKind has a localiser
    G = _wrap._gen.engines(ctx)[0]
    F = G.f
    table = F.const('beartype._data.check.code.func.datacodefuncwrap', 'ARG_KIND_TO_CODE_LOCALIZE')
    kinds = F.const('beartype._util.func.arg.utilfuncargiter', 'ArgKind')
    members = {f'ArgKind.{k}' for k, v in kinds.attrs.items() if not k.startswith('_') and k.isupper()}
    have = {getattr(k, 'name', str(k)) for k in table}
    ctx.ob('C04.R1', 'localiser-table-total', TEMPL, 'ARG_KIND_TO_CODE_LOCALIZE has an entry for every ArgKind member',
           members == have and len(members) >= 5, f'members {sorted(members)} table {sorted(have)}')

    _isomorphic(ctx)

    # ---- R6 ----------------------------------------------------------------------
    from .c08 import wrapper_kind
    wrapper_kind(ctx, 'C04.R6')

    # ---- R7 ----------------------------------------------------------------------
    _standard_decorators(ctx, 'C04.R7')


def _isomorphic(ctx):
    """R5: whose signature is introspected.  @beartype checks a ``functools.wraps`` wrapper against the
    *wrapped* callable's signature only when the wrapper itself is signature-transparent."""
    from sa.fold import FuncVal, _Abort, _Raise, _call_function
    from sa.wrapgen import AFunc
    ctx.rule('C04.R5', 'is_func_wrapper_isomorphic(wrapper) — which decides that a functools.wraps wrapper is checked '
             'against the signature of the callable it wraps — is true exactly when the wrapper declares no named '
             'parameter of any kind (positional-only, flexible, keyword-only) and at least one of *args / **kwargs; '
             'interpreted exhaustively over {positional-only, flexible, keyword-only, *args, **kwargs} present / absent')
    W = _wrap.wrapgen(ctx)
    F = W.F
    fn = F.const('beartype._util.func.utilfuncwrap', 'is_func_wrapper_isomorphic')
    ctx.require(isinstance(fn, FuncVal), 'anchor vanished: is_func_wrapper_isomorphic')
    where = 'beartype/_util/func/utilfuncwrap.py:0'
    n = 0
    for posonly in ((), ('p',)):
        for flex in ((), ('x',)):
            for kwonly in ((), ('k',)):
                for va in (None, 'args'):
                    for vk in (None, 'kwargs'):
                        n += 1
                        w = AFunc('w', posonly, flex, va, kwonly, vk, 'sync', {})
                        w.__wrapped__ = AFunc('inner', (), ('a',), None, (), None, 'sync', {})
                        try:
                            out = _call_function(F, fn, [w], {}, 1)
                        except (_Abort, _Raise) as ex:
                            ctx.require(False, f'cannot interpret is_func_wrapper_isomorphic: {ex}')
                        want = not (posonly or flex or kwonly) and bool(va or vk)
                        sig = ', '.join(list(posonly) + (['/'] if posonly else []) + list(flex) + ([f'*{va}'] if va else (['*'] if kwonly else []))
                                        + list(kwonly) + ([f'**{vk}'] if vk else []))
                        ctx.ob('C04.R5', f'isomorphic:({sig})', where,
                               'a wrapper is treated as signature-transparent iff it has no named parameter and takes '
                               '*args and/or **kwargs', out is want,
                               f'is_func_wrapper_isomorphic(def w({sig})) evaluates to {out!r}, expected {want}: the '
                               f'wrapper\'s own parameters would be checked against (or hidden by) the wrapped callable\'s signature')
    ctx.floor('C04.R5', n, 32, 'wrapper signature shapes')
    # the decorator consults it for the wrapper it was given
    cm = ctx.repo.mod('beartype._check.cls.call.calldatadecorfunc')
    uses = [c for c in ast.walk(cm.tree) if isinstance(c, ast.Call) and dotted(c.func) in ('unwrap_func_all_isomorphic', 'is_func_wrapper_isomorphic')]
    ctx.ob('C04.R5', 'reinit:unwraps-only-isomorphic-wrappers', cm.where(uses[0]) if uses else 'beartype/_check/cls/call/calldatadecorfunc.py:0',
           'the decorated callable is unwrapped through unwrap_func_all_isomorphic only', bool(uses) and not any(
               isinstance(c, ast.Call) and dotted(c.func) == 'unwrap_func_all' for c in ast.walk(cm.tree)), f'{[norm(c)[:60] for c in uses]}')


def keywordable_set(ctx, RULE):
    """The names excluded from the **kwargs check are exactly the flexible and keyword-only parameters (shared with C01:
    a named parameter passed by keyword must not be checked against the **kwargs hint)."""
    N = _wrap.names(ctx)
    KWABLE = N['KEYWORDABLE']
    W = 'beartype/_decor/_nontype/_wrap/_wrapargs.py:0'
    ctx.rule(RULE, 'for every abstract callable with **kwargs the set of names the generated wrapper excludes from the '
             '**kwargs check is exactly {flexible and keyword-only parameter names}, annotated or not — a named parameter '
             'passed by keyword is not an excess keyword argument')
    n, bad, bad2 = 0, None, None
    for f, r, facts in _wrap.wrappers(ctx):
        if r.raised is not None or not r.code:
            continue
        n += 1
        present = KWABLE in r.scope
        if present != bool(f.varkw) and bad is None:
            bad = f'{f.describe()}: keywordable set in scope={present}, has **kwargs={bool(f.varkw)}'
        if present:
            kw = r.scope.get(KWABLE)
            if not (isinstance(kw, set) and kw == set(f.flex) | set(f.kwonly)) and bad2 is None:
                bad2 = f'{f.describe()}: keywordable={sorted(kw) if isinstance(kw, set) else kw}, expected {sorted(set(f.flex) | set(f.kwonly))}'
    ctx.ob(RULE, 'keywordable-iff-varkw', W, f'the set exists iff the callable has **kwargs ({n} wrappers)', bad is None, bad or '')
    ctx.ob(RULE, 'keywordable-set', W, f'the set is exactly the keywordable parameter names ({n} wrappers)', bad2 is None, bad2 or '')


def _standard_decorators(ctx, RULE):
    """Callables already wrapped by a standard-library decorator: the decorator is re-applied, with the parameters the user
    gave it, around the checked inner callable."""
    from sa.fold import AObj, FuncVal, Inst, _Abort, _Raise, _PyCallable, _call_function
    from . import _gen
    F = _gen.engines(ctx)[0].f
    Q = 'beartype._decor._nontype._api.decorstandard'
    mm = ctx.repo.mod(Q)
    ctx.rule(RULE, 'standard-library wrappers are re-created, not lost: beartype_func_functools_lru_cache, interpreted over '
             'maxsize ∈ {128, None, 0} × typed ∈ {False, True}, yields lru_cache(maxsize=same, typed=same)(checked inner '
             'callable); beartype_func_contextlib_contextmanager yields the original context-manager factory applied to '
             'the checked generator function')

    class _Fn(AObj):
        def __init__(self, name):
            self.name = name

        def __repr__(self):
            return f'<{self.name}>'

    class _Lru(AObj):
        def __init__(self, inner, maxsize, typed):
            self.__wrapped__, self.maxsize, self.typed = inner, maxsize, typed

        def cache_parameters(self):
            return {'maxsize': self.maxsize, 'typed': self.typed}

        def cache_info(self):
            i = AObj()
            i.hits, i.misses, i.maxsize, i.currsize = 0, 0, self.maxsize, 0
            return i

        def __repr__(self):
            return f'<lru_cache(maxsize={self.maxsize}, typed={self.typed}) of {self.__wrapped__!r}>'
    saved, saved_ext = dict(F.stubs), dict(F.ext_stubs)
    F.stubs['beartype._util.api.standard.utilfunctools.is_func_functools_lru_cache'] = lambda e, a, k: isinstance(a[0], _Lru)
    F.stubs['beartype._util.func.utilfuncwrap.unwrap_func_once'] = lambda e, a, k: a[0].__wrapped__
    F.stubs['beartype._decor._nontype.decornontype.beartype_nontype'] = \
        lambda e, a, k: Inst('Checked', (repr(k.get('obj', a[0] if a else None)),))

    def lru(env, a, k):
        maxsize = k.get('maxsize', a[0] if a else 128)
        typed = k.get('typed', a[1] if len(a) > 1 else False)
        return _PyCallable(lambda f: _Lru(f, maxsize, typed))
    F.ext_stubs['functools.lru_cache'] = lru
    try:
        fn = F.const(Q, 'beartype_func_functools_lru_cache')
        ctx.require(isinstance(fn, FuncVal), 'anchor vanished: beartype_func_functools_lru_cache')
        for maxsize in (128, None, 0):
            for typed in (False, True):
                inner = _Fn('inner function')
                p = _Lru(inner, maxsize, typed)
                try:
                    out = _call_function(F, fn, [p], {'conf': 'CONF'}, 1)
                except (_Abort, _Raise) as ex:
                    ctx.require(False, f'cannot interpret {fn.qual}: {ex}')
                ok = isinstance(out, _Lru) and out is not p and out.maxsize == maxsize and out.typed is typed and \
                    isinstance(out.__wrapped__, Inst) and out.__wrapped__.args == (repr(inner),)
                ctx.ob(RULE, f'lru_cache:maxsize={maxsize}:typed={typed}', mm.where(fn.node),
                       'the memoising wrapper is re-created with the user\'s parameters around the checked inner callable',
                       ok, f'{p!r} evaluates to {out!r}')
        fn2 = F.const(Q, 'beartype_func_contextlib_contextmanager')
        ctx.require(isinstance(fn2, FuncVal), 'anchor vanished: beartype_func_contextlib_contextmanager')
        gen = _Fn('generator function')
        outer = AObj()
        outer.__wrapped__ = gen
        made = []
        factory = _PyCallable(lambda f: made.append(f) or ('context-manager-of', f))
        saved_b = F.builtin_hook
        F.builtin_hook = lambda n_, a, k: (True if n_ == 'callable' and a and isinstance(a[0], _PyCallable) else (
            saved_b(n_, a, k) if saved_b else NotImplemented))
        try:
            out = _call_function(F, fn2, [], {'func': outer, 'func_contextmanager': factory, 'conf': 'CONF'}, 1)
        except (_Abort, _Raise) as ex:
            ctx.require(False, f'cannot interpret {fn2.qual}: {ex}')
        finally:
            F.builtin_hook = saved_b
        ok = isinstance(out, tuple) and out[0] == 'context-manager-of' and isinstance(out[1], Inst) and out[1].args == (repr(gen),)
        ctx.ob(RULE, 'contextmanager:re-applied', mm.where(fn2.node),
               'the context-manager factory is re-applied to the checked generator function', ok, f'evaluates to {out!r}')
    finally:
        F.stubs.clear()
        F.stubs.update(saved)
        F.ext_stubs.clear()
        F.ext_stubs.update(saved_ext)
