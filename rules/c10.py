"""C10 — checking never modifies or consumes its subject.

R1  read-only vocabulary of generated code;
R2  items are touched only for re-iterable containers (exhaustive over the sign universe,
    against the specification tables FAMILY / NEVER_ITERATE);
R3  mapping values are read through an existing key;
R4  arguments reach the callable untouched (decided with the wrapper analysis of C04).
"""
from __future__ import annotations

import ast
import collections

from sa.astutil import params_of
from sa.flow import walk_shallow
from sa.gen import sign_name
from sa.gencheck import MUTATING_METHODS
from sa.repo import norm, parent
from sa.spec import FAMILY, NEVER_ITERATE

from . import _gen
from .c01 import prod


def run(ctx):
    sw = _gen.sweep(ctx)
    bad = _gen.bad_pairs(ctx, sw)
    G, V, cat, GC = _gen.engines(ctx)
    CODEMAIN = 'beartype/_check/code/codemain.py:0'

    # ---- R1 ----------------------------------------------------------------------
    ctx.rule('C10.R1', 'generated code never stores through the checked object, never calls a mutating or '
             'consuming method on it (pop, append, send, close, __next__, …), and calls next() only on a fresh '
             'iter(·) of it — never on the object itself; assignment expressions target pith variables only')
    seen = collections.Counter()
    offenders = {}
    for d in sw:
        for op, operands in d.get('vocab', []):
            seen[op] += 1
            if op.startswith('call:method:') and op.split(':')[-1] in MUTATING_METHODS:
                offenders.setdefault(op, f'{d["shape"]}: {op} on {operands[0][:80]}')
            if op == 'call:next' and operands and not operands[0].startswith('iter('):
                offenders.setdefault(op, f'{d["shape"]}: next({operands[0][:80]}) consumes the object itself')
            if op.startswith('call:method:') and op.split(':')[-1] not in ('values',):
                offenders.setdefault(op, f'{d["shape"]}: method {op.split(":")[-1]}() called on {operands[0][:80]}')
        for p in d.get('problems', []):
            if 'assignment expression' in p:
                offenders.setdefault('store', f'{d["shape"]}: {p}')
    for op, n in sorted(seen.items()):
        ctx.ob('C10.R1', f'op:{op}', CODEMAIN, f'operation {op} (applied {n} times) neither mutates nor consumes',
               op not in offenders, offenders.get(op, ''))
    ctx.ob('C10.R1', 'op:store', CODEMAIN, 'assignment expressions only bind pith variables', 'store' not in offenders,
           offenders.get('store', ''))
    ctx.floor('C10.R1', len(seen), 8, 'distinct operations applied to the checked object')

    # ---- R2 ----------------------------------------------------------------------
    ctx.rule('C10.R2', 'exhaustive over the hint-sign universe (subscripted and unsubscripted): generated code '
             'touches an item of the object (subscript / next / iter / len) only for signs whose family in the '
             'specification table is a re-iterable container, and never for one-shot or non-container signs '
             '(Iterator, Generator, Awaitable, Callable, …); the repository sign sets agree with that table; the '
             'explanation path enumerates items only under isinstance(cause.pith, Collection)')
    rows = _gen.dispatch(ctx)
    n = 0
    for r in rows:
        if r['sign'] is None:
            continue
        n += 1
        fam = FAMILY.get(r['sign']) or _gen.SPECIAL_FAMILY.get(r['sign'])
        touches = bool(r.get('touches_items'))
        if r['sign'] in NEVER_ITERATE:
            ctx.ob('C10.R2', f'never-iterate:{r["sign"]}:{"sub" if r["subscripted"] else "unsub"}', CODEMAIN,
                   f'no item of a {r["sign"]} object is touched', not touches, r.get('term', ''))
        elif touches:
            ctx.ob('C10.R2', f'iterates:{r["sign"]}:{"sub" if r["subscripted"] else "unsub"}', CODEMAIN,
                   f'{r["sign"]} is a re-iterable container family in the specification table and the generated '
                   f'code equals its reference semantics', fam is not None and r.get('matches_reference') is True,
                   f'family={fam} matches_reference={r.get("matches_reference")} term={r.get("term", "")[:160]}')
    ctx.floor('C10.R2', n, 150, 'sign × subscription cases')
    setmod = 'beartype/_data/hint/sign/datahintsignset.py:0'
    names = lambda nm: {sign_name(s) for s in G.signset(nm)}
    iterating = names('HINT_SIGNS_REITERABLE') | names('HINT_SIGNS_SEQUENCE') | names('HINT_SIGNS_QUASIITERABLE') \
        | names('HINT_SIGNS_MAPPING') | names('HINT_SIGNS_CONTAINER_ARGS_1')
    inter = sorted(iterating & NEVER_ITERATE)
    ctx.ob('C10.R2', 'signsets:disjoint-from-one-shot', setmod,
           'the sign sets that receive an iterating production contain no one-shot / non-container sign',
           not inter, f'{inter}')
    q = names('HINT_SIGNS_QUASIITERABLE')
    ctx.ob('C10.R2', 'signsets:quasiiterable', setmod, 'HINT_SIGNS_QUASIITERABLE ⊆ {Container, Iterable, Reversible}',
           q <= {'Container', 'Iterable', 'Reversible'}, f'{sorted(q)}')
    unknown = sorted(iterating - set(FAMILY) - {'Pep484585TupleFixed', 'Pep646TupleFixedVariadic'})
    ctx.ob('C10.R2', 'signsets:all-in-spec-table', setmod,
           'every sign of an iterating sign set has a family in the specification table', not unknown, f'{unknown}')
    # explanation path: the one-argument container cause finder, interpreted (shared machinery with C09.R3) on an object
    # that is *not* a Collection — what a quasi-iterable hint (Iterable[T], …) may be checked against: nothing is
    # enumerated, read or measured
    from .c09 import container_finder_runs
    n_run = 0
    for finder, mm_, tag, is_tf, n_, kids, log in container_finder_runs(ctx, is_collection=False):
        if is_tf or 'mapping' in finder.qualname:
            continue
        n_run += 1
        touched = [(k, w) for k, w in log if k in ('item', 'full-iteration', 'len')]
        ctx.ob('C10.R2', f'explain:non-collection-untouched:{tag}', mm_.where(finder.node),
               'the explanation path neither enumerates nor measures an object that is not a Collection', not touched,
               f'operations on the object: {touched}')
    ctx.require(n_run >= 4, f'C10.R2: only {n_run} container cause finder runs on a non-collection object')
    # … and a Collection that is not a Sequence is never subscripted (obj[i] on a mapping with __missing__ inserts a key;
    # on a set it raises): the item is taken with next(iter(obj))
    for finder, mm_, tag, is_tf, n_, kids, log in container_finder_runs(ctx, is_sequence=False):
        if is_tf or 'mapping' in finder.qualname or 'HintLogicSequence' in tag:
            continue            # (objects checked against sequence hints are Sequences)
        subs = [w for k, w in log if k == 'subscript']
        ctx.ob('C10.R2', f'explain:non-sequence-not-subscripted:{tag}', mm_.where(finder.node),
               'the explanation path does not subscript a Collection that is not a Sequence', not subs,
               f'subscripts {subs}: on a defaultdict this inserts a key, on a set it raises')

    # ---- R5 ----------------------------------------------------------------------
    # the explanation path must not copy or consume a non-Collection object either (rule shared with C03.R7:
    # len / iter / next / enumerate / tuple / list of cause.pith only under isinstance(cause.pith, Collection))
    from .c03 import _licensed_operations
    _licensed_operations(ctx, rows, 'C10.R5')

    # ---- R6 ----------------------------------------------------------------------
    _own_instance_hooks_read_only(ctx)

    # ---- R7 ----------------------------------------------------------------------
    _sign_table_names(ctx)

    # ---- R3 ----------------------------------------------------------------------
    ctx.rule('C10.R3', 'mapping values are read through a key obtained from the mapping itself '
             '(x[next(iter(x))] / next(iter(x.values()))): no lookup with a fresh key that could insert into a '
             'defaultdict — the generated term of every mapping shape equals the reference term')
    maps = {k for k, v in FAMILY.items() if v == 'mapping'}
    g = collections.defaultdict(lambda: [0, None])
    for d in sw:
        if prod(d) not in maps or d['status'] != 'ok' or _gen.tainted(d, bad):
            continue
        x = g[prod(d)]
        x[0] += 1
        if not d['detect_ok'] and x[1] is None:
            x[1] = f'{d["shape"]}: {d["detect_detail"]}'
    for p, (n_, why) in sorted(g.items()):
        ctx.ob('C10.R3', f'mapping-key:{p}', CODEMAIN, f'{n_} shapes rooted at {p} read values through an existing key',
               why is None, why or '')
    ctx.floor('C10.R3', sum(n_ for n_, _ in g.values()), 100, 'mapping shape evaluations')


#: callables a subject may be handed to without being followed: they read the type, an attribute or the identity
_READ_ONLY_SINKS = {'isinstance', 'issubclass', 'type', 'getattr', 'hasattr', 'callable', 'id', 'repr', 'is_bearable',
                    'is_object_hashable'}


def _subject_uses(repo, m, fn, subject, depth, seen):
    """(node, module, what) for each operation on the subject parameter in fn — and in the repository functions it is handed to
    (depth-bounded) — that can change or consume it: a method call on it, next()/iteration over it, a store through it."""
    tainted = {subject}
    for a in walk_shallow(fn):
        if isinstance(a, ast.Assign) and len(a.targets) == 1 and isinstance(a.targets[0], ast.Name) \
                and isinstance(a.value, ast.Name) and a.value.id in tainted:
            tainted.add(a.targets[0].id)

    def is_t(e):
        return isinstance(e, ast.Name) and e.id in tainted
    for x in walk_shallow(fn):
        if isinstance(x, ast.Call):
            f = x.func
            if isinstance(f, ast.Attribute) and is_t(f.value):
                yield x, m, f'calls the method `.{f.attr}()` of the checked object'
                continue
            args = list(x.args) + [k.value for k in x.keywords]
            if not any(is_t(a) for a in args):
                continue
            nm = norm(f)
            if nm in ('next', 'iter', 'list', 'tuple', 'set', 'sorted', 'sum', 'any', 'all', 'enumerate', 'zip', 'setattr', 'delattr'):
                yield x, m, f'`{nm}()` iterates, consumes or stores through the checked object'
                continue
            if nm.rsplit('.', 1)[-1] in _READ_ONLY_SINKS or (isinstance(f, ast.Attribute) and f.attr in ('__instancecheck__', '__subclasscheck__')):
                continue
            ref = repo.resolve_expr(m, f)
            if ref.kind == 'def' and ref.node is not None and depth > 0 and ref.module in repo.modules:
                key = (ref.module, ref.name)
                if key in seen:
                    continue
                seen.add(key)
                callee = ref.node
                ps = params_of(callee)
                for i, a in enumerate(x.args):
                    if is_t(a) and i < len(ps):
                        yield from _subject_uses(repo, repo.modules[ref.module], callee, ps[i], depth - 1, seen)
                for k in x.keywords:
                    if is_t(k.value) and k.arg in ps:
                        yield from _subject_uses(repo, repo.modules[ref.module], callee, k.arg, depth - 1, seen)
        elif isinstance(x, (ast.For, ast.AsyncFor, ast.comprehension)) and is_t(x.iter):
            yield x if not isinstance(x, ast.comprehension) else x.iter, m, 'iterates over the checked object'
        elif isinstance(x, (ast.Assign, ast.AugAssign, ast.Delete)):
            tg = x.targets if not isinstance(x, ast.AugAssign) else [x.target]
            for t in tg:
                if isinstance(t, (ast.Attribute, ast.Subscript)) and is_t(t.value):
                    yield x, m, 'stores through the checked object'


def _own_instance_hooks_read_only(ctx):
    """R6: isinstance() in generated code may land in a metaclass hook that beartype itself defines (the IO pseudo-protocols,
    the caching protocol, the forward-reference proxies); those hooks are part of the check and must be as read-only as it."""
    repo = ctx.repo
    ctx.rule('C10.R6', 'every __instancecheck__ beartype itself defines (outside the test suite) — and every repository function the '
             'checked object is handed to from there, three calls deep — only reads the type, the identity and attributes of '
             'the checked object: it calls no method of it, never iterates or next()s it, and stores nothing through it '
             '(a stream\'s read(0), a generator\'s send() or a lazily computed property setter would make the check observable)')
    n = 0
    for m, fn in repo.iter_functions():
        if fn.name != '__instancecheck__' or not isinstance(parent(fn), ast.ClassDef):
            continue
        ps = params_of(fn)
        if len(ps) < 2:
            continue
        n += 1
        uses = list(_subject_uses(repo, m, fn, ps[1], 3, set()))
        x = uses[0] if uses else None
        ctx.ob('C10.R6', f'instance-hook:{m.name.rsplit(".", 1)[-1]}.{parent(fn).name}:read-only',
               (x[1].where(x[0]) if x else m.where(fn)), 'the instance-check hook only reads its subject', not uses,
               '; '.join(f'{u[1].where(u[0])}: {u[2]}' for u in uses[:3]))
    ctx.floor('C10.R6', n, 5, "__instancecheck__ hooks of beartype's own metaclasses")


#: literal entries of the repr-prefix → sign tables whose sign is not named like the last component of the prefix (one reason each)
SIGN_NAME_EXCEPTIONS = {
    ('collections.abc.Set', 'HintSignAbstractSet'): 'the ABC is called Set, its typing alias (and the sign) AbstractSet',
    ('contextlib.AbstractContextManager', 'HintSignContextManager'): 'typing.ContextManager aliases contextlib.AbstractContextManager',
    ('contextlib.AbstractAsyncContextManager', 'HintSignAsyncContextManager'): 'typing.AsyncContextManager aliases contextlib.AbstractAsyncContextManager',
    ('numpy.ndarray', 'HintSignNumpyArray'): 'third-party array type',
    ("<class 'typing.IO'>", 'HintSignPep484585GenericUnsubbed'): 'the unsubscripted IO generic is checked as a generic',
}


def _sign_table_names(ctx):
    """R7: which production a hint gets is decided by the sign its repr() prefix is mapped to; a one-shot iterator spelled
    collections.abc.Iterator[T] mapped to the sign of a re-iterable family would be iterated by the check."""
    import re
    Q = 'beartype._data.hint.datahintrepr'
    m = ctx.repo.mod(Q)
    ctx.rule('C10.R7', 'the sign-detection tables (repr() prefix → sign) name the same thing on both sides: every literal entry '
             "'module.Name': HintSignX of beartype._data.hint.datahintrepr has X == Name (case-insensitively) or is one of the "
             'reviewed aliases (table, one reason each) — an entry such as collections.abc.Iterator → HintSignIterable hands a '
             'one-shot iterator to a production that reads items (deviance among the entries of one table)')
    n = 0
    for a in ast.walk(m.tree):
        if not isinstance(a, (ast.Assign, ast.AnnAssign)) or not isinstance(getattr(a, 'value', None), ast.Dict):
            continue
        tg = a.targets[0] if isinstance(a, ast.Assign) else a.target
        if not (isinstance(tg, ast.Name) and 'TO_SIGN' in tg.id):
            continue
        for k, v in zip(a.value.keys, a.value.values):
            if not (isinstance(k, ast.Constant) and isinstance(k.value, str) and isinstance(v, ast.Name) and v.id.startswith('HintSign')):
                continue
            n += 1
            base = re.sub(r"[<>' ]|class", '', k.value).rsplit('.', 1)[-1]
            ok = base.lower() == v.id[len('HintSign'):].lower() or (k.value, v.id) in SIGN_NAME_EXCEPTIONS
            ctx.ob('C10.R7', f'sign-table:{tg.id}:{k.value}', m.where(k), 'the prefix is mapped to the sign of the same name', ok,
                   f'{k.value!r} is mapped to {v.id}')
    ctx.floor('C10.R7', n, 30, 'literal entries of the sign-detection tables')
