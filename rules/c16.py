"""C16 — bytecode caches.

R1  the cache-path patch is a process-global monkey-patch (shared with C15.R5);
R2  cache-key completeness: every option the AST transformation reads is an input of the
    cache-path marker;
R3  patch / restore pairing: restored in ``finally`` on every exit; un-hooked paths call
    ``super().get_code`` outside the patched region, the hooked path only inside it;
R4  the marker is non-empty, version-bound and appended to the interpreter's own tag.
"""
from __future__ import annotations

import ast

from sa.astutil import dotted
from sa.flow import walk_shallow
from sa.repo import norm, parent

from .c15 import global_patches

LOADER = 'beartype.claw._importlib._clawimpfileloader'
CACHE = 'beartype.claw._importlib.clawimpcache'


def run(ctx):
    repo = ctx.repo
    global_patches(ctx, 'C16.R1')

    # ---- R3 ----------------------------------------------------------------------
    ctx.rule('C16.R3', 'get_code, interpreted over {module name excluded or not} × {configuration registered or not} × {the '
             'standard loader returns / raises}: the standard loader is called exactly once; for a hooked module it runs '
             'with the beartype cache-path function installed, for any other module '
             'with the library\'s own function; after get_code returns or raises the library\'s own function is back')
    # ---- R2 ----------------------------------------------------------------------
    ctx.rule('C16.R2', 'every configuration option read (as self._conf.<opt> / conf.<opt>) by the AST transformer under '
             'beartype/claw/_ast must be an input of the marker that cache_from_source_beartype adds to the cache '
             'path — otherwise two configurations that transform a module differently share one .pyc')
    read = {}
    for mn, m in sorted(repo.modules.items()):
        if not mn.startswith('beartype.claw._ast'):
            continue
        for x in ast.walk(m.tree):
            if isinstance(x, ast.Attribute) and isinstance(x.ctx, ast.Load) and dotted(x.value) in ('self._conf', 'conf') \
                    and not x.attr.startswith('_'):
                read.setdefault(x.attr, (m, x))
    # the beartype variant of the cache-path function, by role: the function get_code installs (interpreted below)
    variant = loader_protocol(ctx, 'C16.R3', None)
    ctx.require(variant is not None, 'anchor vanished: get_code installs no repository function as the cache-path function')
    cm = repo.mod(variant.module)
    cf = variant.node
    inputs = {x.attr for x in ast.walk(cf) if isinstance(x, ast.Attribute)} | {x.id for x in ast.walk(cf) if isinstance(x, ast.Name)}
    for opt, (m, x) in sorted(read.items()):
        ctx.ob('C16.R2', f'marker-input:{opt}', m.where(x),
               f'option {opt}, which changes the transformed code, is part of the cache-path marker', opt in inputs,
               f'the marker is computed from {sorted(i for i in inputs if i.isupper() or "marker" in i.lower())} only')
    ctx.floor('C16.R2', len(read), 2, 'options read by the transformer')

    # ---- R4 ----------------------------------------------------------------------
    ctx.rule('C16.R4', 'the marker is a non-empty string bound to the beartype version and is appended to (not '
             'substituted for) the optimisation tag the interpreter passes')
    _marker_protocol(ctx, variant)
    source_to_code_protocol(ctx, 'C16.R3')

    # ---- R5 ----------------------------------------------------------------------
    _loader_details(ctx, 'C16.R5')
    _optimized_interpreter(ctx, 'C16.R6')


def _marker_protocol(ctx, variant):
    """R4 by interpretation: the beartype cache-path function called the way the import machinery calls it."""
    from sa.fold import Sym, _Abort, _Raise, _call_function
    from . import _gen
    repo = ctx.repo
    F = _gen.engines(ctx)[0].f
    cm = repo.mod(variant.module)
    saved_ext = dict(F.ext_stubs)
    calls = []

    def library(env, a, k):
        calls.append((list(a), dict(k)))
        return ('PATH-FOR', k.get('optimization'))
    for nm in ('importlib.util.cache_from_source', 'importlib._bootstrap_external.cache_from_source',
               'importlib.machinery.cache_from_source'):
        F.ext_stubs[nm] = library
    # the marker, by role: the one module-level string constant the variant reads
    env = F.module_env(variant.module)
    names = {x.id for x in ast.walk(variant.node) if isinstance(x, ast.Name)}
    imported = {}
    for st in ast.walk(variant.node):
        if isinstance(st, ast.ImportFrom):
            for al in st.names:
                imported[al.asname or al.name] = (st.module, al.name)
    markers = {}
    for n in sorted(names):
        v = env.get(n)
        if n in imported:
            try:
                v = F.value(*imported[n])
            except Exception:
                v = None
        if isinstance(v, str):
            markers[n] = v
    try:
        for tag, kw in (('absent', {}), ('empty', {'optimization': ''}), ('level-1', {'optimization': 1}), ('level-2', {'optimization': 2})):
            del calls[:]
            try:
                out = _call_function(F, variant, ['/src/pkg/mod.py'], dict(kw), 1)
            except (_Abort, _Raise) as ex:
                ctx.require(False, f'cannot interpret {variant.qual}: {ex}')
            given = kw.get('optimization', '')
            ok_call = len(calls) == 1 and calls[0][0] == ['/src/pkg/mod.py'] and set(calls[0][1]) == {'optimization'}
            opt = calls[0][1].get('optimization') if ok_call else None
            ctx.ob('C16.R4', f'marker:on-every-path:{tag}', cm.where(variant.node),
                   'the library function is called once, with the source path it was given and a marked optimisation tag, and '
                   'its answer is returned: the marked path is used for reading as well as for writing bytecode',
                   ok_call and isinstance(opt, str) and out == ('PATH-FOR', opt) and opt != str(given),
                   f'calls {calls}; evaluates to {out!r}')
            if not (ok_call and isinstance(opt, str)):
                continue
            ctx.ob('C16.R4', f'marker:appended-to-interpreter-tag:{tag}', cm.where(variant.node),
                   'the interpreter\'s optimisation tag is kept as a prefix of the beartype marker',
                   opt.startswith(str(given)) and len(opt) > len(str(given)), f'optimization={given!r} becomes {opt!r}')
            suffix = opt[len(str(given)):] if opt.startswith(str(given)) else opt
            ctx.ob('C16.R4', f'marker:is-the-version-bound-constant:{tag}', cm.where(variant.node),
                   'what is appended is a module-level marker constant', suffix in markers.values(), f'appended {suffix!r}; constants {markers}')
    finally:
        F.ext_stubs.clear()
        F.ext_stubs.update(saved_ext)
    # the marker embeds the version: its defining expression reads the version constant of the package
    for n, v in markers.items():
        mod_name, attr = imported.get(n, (variant.module, n))
        dm = repo.mod(mod_name)
        src = dm.assigns.get(attr, [])
        ver = ctx.folder.value('beartype._metaverse', 'VERSION')
        txt = norm(src[-1].value) if src else ''
        reads_version = any(isinstance(x, ast.Name) and x.id.upper().startswith('VERSION') for st in src for x in ast.walk(st.value))
        ctx.ob('C16.R4', 'marker:version-bound-non-empty', dm.where(src[-1]) if src else dm.where(dm.tree.body[0]),
               'the marker embeds the beartype version (a new release never reuses old bytecode) and cannot be empty',
               len(v) > 0 and ((ver.replace('.', 'v') in v or ver in v) if isinstance(ver, str) and ver else reads_version),
               f'{txt[:100]} = {v!r} (package version {ver!r})')
    ctx.require(markers, f'{variant.qual}: no module-level marker constant read')


def loader_protocol(ctx, RULE_PATCH, RULE_PUB):
    """get_code, interpreted (the analyser's own interpreter, handlers and finally clauses modelled) over
    {module name excluded or not} × {a configuration is registered for the module or not} × {the standard loader returns
    or raises} with a stale table entry present: what the standard loader sees when it is called (the cache-path function
    installed, the configuration published on the loader and in the run-time table) and what is left behind afterwards."""
    from sa.fold import AObj, FuncVal, Sym, _Abort, _Raise, _PyCallable, _call_function
    from . import _gen
    repo = ctx.repo
    F = _gen.engines(ctx)[0].f
    lm = repo.mod(LOADER)
    cls = F.const(LOADER, 'BeartypeSourceFileLoader')
    fn = cls.find('get_code')
    ctx.require(isinstance(fn, FuncVal), 'anchor vanished: BeartypeSourceFileLoader.get_code')
    ORIGINAL = 'the-library-function'

    def ob(rule, *a):
        if rule is not None:
            ctx.ob(rule, *a)

    class _Ext(AObj):
        _track_attribute_stores = True

        def __init__(self):
            self.cache_from_source = ORIGINAL

    class _Self(AObj):
        _track_attribute_stores = True

        def __init__(self):
            self._module_conf, self._module_name = None, None

    class _State(AObj):
        def __init__(self):
            self.module_name_to_beartype_conf = {'pkg.mod': 'STALE-CONF'}

    class _Regex(AObj):
        def __init__(self, hit):
            self.hit = hit

        def match(self, s):
            return 'match' if self.hit else None

        def search(self, s):
            return self.match(s)

        def fullmatch(self, s):
            return self.match(s)

    def is_original(v):
        return v == ORIGINAL or (isinstance(v, Sym) and v.kind == 'ext' and v.name.split('.')[-1] == 'cache_from_source')
    ext_names = [n for n, v in F.module_env(LOADER).items() if isinstance(v, Sym) and v.kind == 'ext'
                 and v.name in ('importlib._bootstrap_external', 'importlib.machinery', 'importlib.util')]
    regexes = [n for n, v in F.module_env(LOADER).items() if n.isupper() and 'REGEX' in n]
    ctx.require(regexes, 'anchor vanished: the compiled exclusion pattern imported by the loader module')
    saved_stubs, saved_b = dict(F.stubs), F.builtin_hook
    variant = []
    try:
        F.faithful_try = True
        for excluded in (False, True):
            for conf in ('CONF', None):
                for outcome in ('returns', 'raises', 'returns-while-another-import-is-patched'):
                    ext, slf, state = _Ext(), _Self(), _State()
                    overlapped = outcome.startswith('returns-while')
                    if overlapped:
                        # a hooked import of another thread is in flight: its variant is installed when this one starts
                        if not (conf and not excluded):
                            continue
                        # (the very function object a hooked import installs, once known from an earlier scenario)
                        ext.cache_from_source = variant[0] if variant else 'the-variant-installed-by-another-thread'
                        outcome = 'returns'
                    olds = [(LOADER, n, F.patch_global(LOADER, n, ext)) for n in ext_names]
                    olds += [(LOADER, n, F.patch_global(LOADER, n, _Regex(excluded))) for n in regexes]
                    olds.append(('beartype.claw._clawstate', 'claw_state', F.patch_global('beartype.claw._clawstate', 'claw_state', state)))
                    F.stubs['beartype.claw._package.clawpkgtrie.get_package_conf_or_none'] = lambda e, a, k, conf=conf: conf
                    calls = []

                    def std_get_code(name, ext=ext, slf=slf, state=state, calls=calls, outcome=outcome):
                        calls.append({'cache_from_source': ext.cache_from_source, 'self_conf': slf._module_conf,
                                      'self_name': slf._module_name, 'table': state.module_name_to_beartype_conf.get('pkg.mod'),
                                      'name': name})
                        if outcome == 'raises':
                            raise _Raise('ImportError', 'the standard loader')
                        return 'CODE'

                    class _Super(AObj):
                        get_code = staticmethod(std_get_code)

                    def bh(name, args, kwargs):
                        if name == 'super':
                            return _Super()
                        return saved_b(name, args, kwargs) if saved_b else NotImplemented
                    F.builtin_hook = bh
                    raised = None
                    out = None
                    try:
                        out = _call_function(F, fn, [slf, 'pkg.mod'], {}, 1)
                    except _Raise as ex:
                        raised = ex
                    except _Abort as ex:
                        ctx.require(False, f'cannot interpret get_code: {ex}')
                    finally:
                        for mod, n, old in olds:
                            F.patch_global(mod, n, old)
                    hooked = (not excluded) and conf is not None
                    tag = f'excluded={excluded}:conf={"registered" if conf else "none"}:standard-loader-{outcome}' + (
                        ':overlapping-hooked-import' if overlapped else '')
                    where = lm.where(fn.node)
                    ok_call = len(calls) == 1 and calls[0]['name'] == 'pkg.mod'
                    ob(RULE_PATCH, f'get_code:delegates-once:{tag}', where,
                           'the standard loader is called exactly once, for the module asked for, and its result or '
                           'exception is what get_code produces', ok_call and (
                               (outcome == 'returns' and out == 'CODE' and raised is None) or
                               (outcome == 'raises' and raised is not None and str(raised.what) == 'ImportError')),
                           f'{len(calls)} calls; evaluates to {out!r} / raises {raised}')
                    if not ok_call:
                        continue
                    c = calls[0]
                    if hooked:
                        if isinstance(c['cache_from_source'], FuncVal):
                            variant.append(c['cache_from_source'])
                        ob(RULE_PATCH, f'get_code:patched-while-compiling:{tag}', where,
                               'while the standard loader runs for a hooked module the cache-path function is the beartype variant',
                               isinstance(c['cache_from_source'], FuncVal), f'cache_from_source is {c["cache_from_source"]!r}')
                        for what, got, want in (('self-conf', c['self_conf'], conf), ('self-name', c['self_name'], 'pkg.mod'),
                                                ('table', c['table'], conf)):
                            ob(RULE_PUB, f'get_code:publishes:{what}:{tag}', where,
                                   'before the module is compiled the looked-up configuration is published on the loader '
                                   '(what source_to_code hands to the transformer) and in the run-time table (what the '
                                   'injected code looks up), replacing any earlier entry', got == want,
                                   f'{what} is {got!r} when the standard loader runs, expected {want!r} (the code is transformed '
                                   f'for one configuration and runs with another)')
                    else:
                        ob(RULE_PATCH, f'get_code:unhooked-path-unpatched:{tag}', where,
                               'for a module that is not hooked the standard loader runs with the library\'s own cache-path function',
                               is_original(c['cache_from_source']), f'cache_from_source is {c["cache_from_source"]!r}')
                        ob(RULE_PUB, f'get_code:unhooked-publishes-nothing:{tag}', where,
                               'a module that is not hooked is compiled untransformed: no configuration on the loader',
                               c['self_conf'] is None and slf._module_conf is None, f'self._module_conf is {slf._module_conf!r}')
                    ob(RULE_PATCH, f'get_code:restored-afterwards:{tag}', where,
                           'after get_code (returning or raising) the cache-path function is the library\'s own again — whatever was '
                           'installed when it began (two overlapping hooked imports must not leave the patch behind)',
                           is_original(ext.cache_from_source), f'cache_from_source is left as {ext.cache_from_source!r}')
    finally:
        F.faithful_try = False
        F.builtin_hook = saved_b
        F.stubs.clear()
        F.stubs.update(saved_stubs)
    return variant[0] if variant else None


def source_to_code_protocol(ctx, RULE):
    """source_to_code, interpreted: an un-hooked module is compiled by the standard loader; a hooked module is parsed,
    transformed by a transformer built from the published module name and configuration, and compiled."""
    from sa.fold import AObj, FuncVal, Sym, _Abort, _Raise, _PyCallable, _call_function
    from . import _gen
    repo = ctx.repo
    F = _gen.engines(ctx)[0].f
    lm = repo.mod(LOADER)
    cls = F.const(LOADER, 'BeartypeSourceFileLoader')
    fn = cls.find('source_to_code')
    ctx.require(isinstance(fn, FuncVal), 'anchor vanished: BeartypeSourceFileLoader.source_to_code')
    saved, saved_ext, saved_b = dict(F.stubs), dict(F.ext_stubs), F.builtin_hook
    log = []
    failing = {}

    class _Transformer(AObj):
        def __init__(self, **kw):
            self.kw = kw
            log.append(('transformer', kw))

        def visit(self, tree):
            if failing.get('transformer'):
                raise _Raise(failing['transformer'], 'the transformer')
            return ('TRANSFORMED', tree, self.kw.get('module_name'), self.kw.get('conf'))

    from sa.fold import BoundMethod

    class _Self(AObj):
        _track_attribute_stores = True

        def __init__(self, conf):
            self._module_conf, self._module_name = conf, 'pkg.mod'

        def __getattr__(self, name):          # the other methods of the real loader class
            f_ = cls.find(name)
            if isinstance(f_, FuncVal):
                return BoundMethod(self, f_)
            raise AttributeError(name)

    class _Super(AObj):
        @staticmethod
        def source_to_code(*a, **k):
            log.append(('standard', a, k))
            return 'STANDARD-CODE'

    def bh(name, args, kw):
        if name == 'super':
            return _Super()
        if name == 'compile':
            flags = kw.get('flags', args[3] if len(args) > 3 else 0)
            only_ast = 'PyCF_ONLY_AST' in repr(flags) or (isinstance(flags, int) and flags & 0x400)
            if only_ast:
                log.append(('parse-flags', flags))
            return ('AST', args[0]) if only_ast else ('CODE', args[0])
        return saved_b(name, args, kw) if saved_b else NotImplemented
    F.builtin_hook = bh
    tq = [n for n, v in F.module_env(LOADER).items() if getattr(v, 'name', '') == 'BeartypeNodeTransformer']
    olds = [(n, F.patch_global(LOADER, n, _PyCallable(lambda **kw: _Transformer(**kw)))) for n in tq]
    ctx.require(olds, 'anchor vanished: the loader module no longer refers to BeartypeNodeTransformer')
    F.ext_stubs['importlib.util.decode_source'] = lambda e, a, k: 'SOURCE-TEXT'
    F.ext_stubs['importlib._bootstrap_external.decode_source'] = lambda e, a, k: 'SOURCE-TEXT'
    ver = [n for n in F.module_env(LOADER) if n.startswith('IS_PYTHON_AT_LEAST')]
    try:
        for at_least in (False, True):
            olds_v = [(n, F.patch_global(LOADER, n, at_least)) for n in ver]
            try:
                for conf in (None, 'CONF'):
                    del log[:]
                    try:
                        out = _call_function(F, fn, [_Self(conf)], {'data': b'bytes', 'path': '/p/mod.py'}, 1)
                    except (_Abort, _Raise) as ex:
                        ctx.require(False, f'cannot interpret source_to_code: {ex}')
                    tag = f'conf={"published" if conf else "none"}:newer-python={at_least}'
                    if conf is None:
                        ctx.ob(RULE, f'source_to_code:unhooked-delegates:{tag}', lm.where(fn.node),
                               'without a published configuration the standard loader compiles the module and no transformer is built',
                               out == 'STANDARD-CODE' and [x[0] for x in log] == ['standard'], f'evaluates to {out!r}; {log}')
                    else:
                        pf = [x[1] for x in log if x[0] == 'parse-flags']
                        ctx.ob(RULE, f'source_to_code:parsed-like-the-standard-loader:{tag}', lm.where(fn.node),
                               'the module is parsed with PyCF_ONLY_AST and no other compiler flag (extra grammar flags such as '
                               'PyCF_TYPE_COMMENTS reject or re-interpret sources the standard loader accepts)',
                               pf == [0x400] or (len(pf) == 1 and 'PyCF_ONLY_AST' in repr(pf[0]) and '|' not in repr(pf[0])), f'parse flags {pf!r}')
                        built = [x[1] for x in log if x[0] == 'transformer']
                        ok = len(built) == 1 and built[0].get('module_name') == 'pkg.mod' and built[0].get('conf') == 'CONF' and \
                            out == ('CODE', ('TRANSFORMED', ('AST', 'SOURCE-TEXT'), 'pkg.mod', 'CONF'))
                        ctx.ob(RULE, f'source_to_code:transformer-gets-published-conf:{tag}', lm.where(fn.node),
                               'the module is parsed, transformed by a transformer built from the published module name and '
                               'configuration, and the transformed tree is what is compiled', ok, f'evaluates to {out!r}; {log}')
            finally:
                for n, o in olds_v:
                    F.patch_global(LOADER, n, o)
        # a transformer that fails must fail the import: compiling the module untransformed instead would run it
        # unchecked — and, inside the patched get_code, cache that under the beartype marker
        F.faithful_try = True
        olds_v = [(n, F.patch_global(LOADER, n, False)) for n in ver]
        for exc in ('RecursionError', 'ValueError'):
            failing['transformer'] = exc
            del log[:]
            raised = out = None
            try:
                out = _call_function(F, fn, [_Self('CONF')], {'data': b'bytes', 'path': '/p/mod.py'}, 1)
            except _Raise as ex:
                raised = ex
            except _Abort as ex:
                ctx.require(False, f'cannot interpret source_to_code: {ex}')
            ctx.ob(RULE, f'source_to_code:transformer-failure-is-not-swallowed:{exc}', lm.where(fn.node),
                   'when the transformer raises, no code object is produced for the hooked module', raised is not None,
                   f'evaluates to {out!r}: the module is compiled without the transformation')
        failing.clear()
        for n, o in olds_v:
            F.patch_global(LOADER, n, o)
    finally:
        F.faithful_try = False
        F.builtin_hook = saved_b
        for n, o in olds:
            F.patch_global(LOADER, n, o)
        F.stubs.clear()
        F.stubs.update(saved)
        F.ext_stubs.clear()
        F.ext_stubs.update(saved_ext)


def _loader_details(ctx, RULE):
    """The loader-details permutation of the beartype path hook, interpreted: only the source loader is replaced, in place."""
    from sa.fold import ClassVal, FuncVal, Sym, _Abort, _Raise, _call_function
    from . import _gen
    F = _gen.engines(ctx)[0].f
    Q = 'beartype.claw._importlib._clawimpfilefinder'
    mm = ctx.repo.mod(Q)
    # by role: the function of the finder module that builds tuples around BeartypeSourceFileLoader
    cands = [v for n, v in F.module_env(Q).items() if isinstance(v, FuncVal) and v.module == Q and any(
        isinstance(x, ast.Name) and x.id == 'BeartypeSourceFileLoader' for x in ast.walk(v.node)) and any(
        isinstance(x, ast.Name) and x.id == 'SOURCE_SUFFIXES' for x in ast.walk(v.node))]
    def iterates_param(v):
        ps = [a.arg for a in v.node.args.args]
        its = [x.iter for x in ast.walk(v.node) if isinstance(x, (ast.For, ast.comprehension))]
        return len(ps) == 1 and any(isinstance(i, ast.Name) and i.id == ps[0] for i in its)
    cands = [v for v in cands if iterates_param(v)]
    ctx.require(len(cands) == 1, f'anchor vanished: the loader-details permutation of the path hook ({[c.qualname for c in cands]})')
    fn = cands[0]
    ctx.rule(RULE, 'the file finder of the path hook keeps CPython\'s loader order — extension modules, then source, then '
             'sourceless bytecode — and replaces only the source loader: interpreted on (extension, source, sourceless) '
             'and on orders with the source entry first / last, the result has the same length and order, the source '
             'entry carries BeartypeSourceFileLoader with the same suffixes, every other entry is untouched (a sourceless '
             '.pyc next to a .py must not shadow the source of a hooked module)')
    SRC = ['.py']
    saved_g = F.patch_global(Q, 'SOURCE_SUFFIXES', SRC)
    bsl = F.module_env(Q).get('BeartypeSourceFileLoader')
    try:
        orders = {'extension,source,sourceless': ['ext', 'src', 'pyc'], 'source,extension,sourceless': ['src', 'ext', 'pyc'],
                  'extension,sourceless,source': ['ext', 'pyc', 'src']}
        for oname, order in orders.items():
            items = {'ext': ('ExtensionFileLoader', ['.so']), 'src': ('SourceFileLoader', SRC), 'pyc': ('SourcelessFileLoader', ['.pyc'])}
            details = tuple(items[k] for k in order)
            try:
                out = _call_function(F, fn, [details], {}, 1)
            except (_Abort, _Raise) as ex:
                ctx.require(False, f'cannot interpret {fn.qual}: {ex}')
            ok = isinstance(out, tuple) and len(out) == len(details)
            if ok:
                for got, k in zip(out, order):
                    if k == 'src':
                        ok = ok and isinstance(got, tuple) and got[0] is bsl and got[1] == SRC
                    else:
                        ok = ok and got is items[k] or (ok and tuple(got) == items[k])
            ctx.ob(RULE, f'loader-details:{oname}', mm.where(fn.node),
                   'same order, only the source loader replaced by the beartype source loader', ok, f'{details!r} evaluates to {out!r}')
    finally:
        F.patch_global(Q, 'SOURCE_SUFFIXES', saved_g)


def _optimized_interpreter(ctx, RULE):
    """Under python -O the decorator and the hooks reduce to no-ops (asserts are stripped, so is the checking): a hooked module
    compiled by an optimised interpreter that does *not* stand down lands, optimised, in the cache file plain runs share."""
    from sa.fold import FuncVal, _Abort, _Raise, _call_function
    from . import _gen
    F = _gen.engines(ctx)[0].f
    Q = 'beartype._util.py.utilpyinterpreter'
    mm = ctx.repo.mod(Q)
    env = F.module_env(Q)
    fn = env.get('is_python_optimized')
    ctx.require(isinstance(fn, FuncVal), 'anchor vanished: is_python_optimized')
    ctx.rule(RULE, 'whether the interpreter is optimised is the interpreter\'s word first: is_python_optimized(), interpreted over '
             '{__debug__ true, false} × {PYTHONOPTIMIZE unset, empty, "0", "1", "2", not a number}, is true whenever __debug__ is '
             'false — whatever the environment variable says — and, under __debug__, exactly when the variable is a positive '
             'integer; otherwise `python -O` with PYTHONOPTIMIZE=0 keeps the hooks active and writes assert-stripped code into the '
             'beartype-tagged cache that unoptimised runs read')
    saved = {k: env.get(k, None) for k in ('__debug__', 'TYPE_CHECKING')}
    # the accessor of the environment (os.environ.get under an alias): scripted
    from sa.fold import _PyCallable
    SH = 'beartype._util.os.utilosshell'
    ctx.require('get_shell_var_value_or_none' in F.module_env(SH), 'anchor vanished: get_shell_var_value_or_none')
    state = {}
    old_sh = F.patch_global(SH, 'get_shell_var_value_or_none', _PyCallable(lambda *a, **k: state['env']))
    saved_b, saved_try = F.builtin_hook, getattr(F, 'faithful_try', False)

    def bh(name, args, kw):
        if name == 'int' and len(args) == 1 and isinstance(args[0], str):
            try:
                return int(args[0])
            except ValueError:
                raise _Raise('ValueError', f'int({args[0]!r})')
        return saved_b(name, args, kw) if saved_b else NotImplemented
    F.builtin_hook, F.faithful_try = bh, True
    n = 0
    try:
        for debug in (True, False):
            for label, val in (('unset', None), ('empty', ''), ('0', '0'), ('1', '1'), ('2', '2'), ('junk', 'yes')):
                env['__debug__'] = debug
                env['TYPE_CHECKING'] = False
                state['env'] = val
                try:
                    out = _call_function(F, fn, [], {}, 1)
                except (_Raise, _Abort) as ex:
                    ctx.require(False, f'cannot interpret is_python_optimized: {ex}')
                want = (not debug) or val in ('1', '2')
                n += 1
                ctx.ob(RULE, f'optimized:__debug__={debug}:PYTHONOPTIMIZE={label}', mm.where(fn.node),
                       f'is_python_optimized() is {want}', out is want, f'evaluates to {out!r}')
    finally:
        for k, v in saved.items():
            if v is None:
                env.pop(k, None)
            else:
                env[k] = v
        F.patch_global(SH, 'get_shell_var_value_or_none', old_sh)
        F.builtin_hook, F.faithful_try = saved_b, saved_try
    ctx.floor(RULE, n, 12, 'interpreter states')
