"""C16 — bytecode caches.

R1  the cache-path patch is a process-global monkey-patch (shared with C15.R5);
R2  cache-key completeness: every option the AST transformation reads is an input of the
    cache-path marker;
R3  patch / restore pairing: restored in ``finally`` on every exit; un-hooked paths call
    ``super().get_code`` outside the patched region, the hooked path only inside it;
R4  the marker is non-empty, version-bound and appended to the interpreter's own tag.
"""
from __future__ import annotations

import ast

from sa.astutil import dotted
from sa.flow import walk_shallow
from sa.repo import norm, parent

from .c15 import global_patches

LOADER = 'beartype.claw._importlib._clawimpfileloader'
CACHE = 'beartype.claw._importlib.clawimpcache'


def run(ctx):
    repo = ctx.repo
    global_patches(ctx, 'C16.R1')

    # ---- R2 ----------------------------------------------------------------------
    ctx.rule('C16.R2', 'every configuration option read (as self._conf.<opt> / conf.<opt>) by the AST transformer under '
             'beartype/claw/_ast must be an input of the marker that cache_from_source_beartype adds to the cache '
             'path — otherwise two configurations that transform a module differently share one .pyc')
    read = {}
    for mn, m in sorted(repo.modules.items()):
        if not mn.startswith('beartype.claw._ast'):
            continue
        for x in ast.walk(m.tree):
            if isinstance(x, ast.Attribute) and isinstance(x.ctx, ast.Load) and dotted(x.value) in ('self._conf', 'conf') \
                    and not x.attr.startswith('_'):
                read.setdefault(x.attr, (m, x))
    cm = repo.mod(CACHE)
    cf = cm.defs.get('cache_from_source_beartype')
    ctx.require(cf is not None, 'anchor vanished: cache_from_source_beartype')
    inputs = {x.attr for x in ast.walk(cf) if isinstance(x, ast.Attribute)} | {x.id for x in ast.walk(cf) if isinstance(x, ast.Name)}
    for opt, (m, x) in sorted(read.items()):
        ctx.ob('C16.R2', f'marker-input:{opt}', m.where(x),
               f'option {opt}, which changes the transformed code, is part of the cache-path marker', opt in inputs,
               f'the marker is computed from {sorted(i for i in inputs if i.isupper() or "marker" in i.lower())} only')
    ctx.floor('C16.R2', len(read), 2, 'options read by the transformer')

    # ---- R3 ----------------------------------------------------------------------
    ctx.rule('C16.R3', 'get_code: the patch is immediately followed by try/finally restoring the original on every '
             'exit; every super().get_code() on an un-hooked path lies before the patch, the hooked one inside the try')
    lm = repo.mod(LOADER)
    gc = None
    for c in [n for n in lm.tree.body if isinstance(n, ast.ClassDef)]:
        for f in c.body:
            if isinstance(f, ast.FunctionDef) and f.name == 'get_code':
                gc = f
    ctx.require(gc is not None, 'anchor vanished: BeartypeSourceFileLoader.get_code')
    patches = [a for a in walk_shallow(gc) if isinstance(a, ast.Assign) and norm(a.targets[0]).endswith('.cache_from_source')]
    patch = [a for a in patches if 'original' not in norm(a.value)]
    ctx.require(len(patch) >= 1, 'get_code: no patch assignment found')
    # a second non-restoring assignment (e.g. inside the finally block) is itself the violation
    ctx.ob('C16.R3', 'get_code:one-patch-assignment', lm.where(patch[-1]),
           'the cache-path function is replaced by the beartype variant exactly once per call', len(patch) == 1,
           f'{len(patch)} assignments install a non-original function: {[f"line {a.lineno}: {norm(a)[:70]}" for a in patch]}')
    p = patch[0]
    blk = parent(p).body
    i = blk.index(p)
    nxt = blk[i + 1] if i + 1 < len(blk) else None
    ok = isinstance(nxt, ast.Try) and nxt.finalbody and any(
        isinstance(a, ast.Assign) and norm(a.targets[0]) == norm(p.targets[0]) and 'original' in norm(a.value) for a in nxt.finalbody)
    ctx.ob('C16.R3', 'get_code:patch-then-try-finally-restore', lm.where(p),
           'the statement after the patch is a try whose finally restores the original function', ok,
           f'next statement: {type(nxt).__name__ if nxt is not None else None}')
    supers = [c for c in walk_shallow(gc) if isinstance(c, ast.Call) and norm(c.func) == 'super().get_code']
    inside = [c for c in supers if isinstance(nxt, ast.Try) and any(c in list(ast.walk(s)) for s in nxt.body)]
    before = [c for c in supers if c.lineno < p.lineno]
    ctx.ob('C16.R3', 'get_code:unhooked-paths-outside-patch', lm.where(gc),
           'un-hooked returns call super().get_code() before the patch; the hooked one inside the try',
           len(inside) == 1 and len(before) == len(supers) - 1 and len(supers) >= 2,
           f'{len(supers)} calls: {len(before)} before the patch, {len(inside)} inside the try')

    # ---- R4 ----------------------------------------------------------------------
    ctx.rule('C16.R4', 'the marker is a non-empty string bound to the beartype version and is appended to (not '
             'substituted for) the optimisation tag the interpreter passes')
    kw = [a for a in walk_shallow(cf) if isinstance(a, ast.Assign) and "kwargs['optimization']" == norm(a.targets[0])]
    ok = len(kw) == 1 and isinstance(kw[0].value, ast.JoinedStr) and len([v for v in kw[0].value.values if isinstance(v, ast.FormattedValue)]) == 2
    first = norm(kw[0].value.values[0].value) if ok else ''
    got = [a for a in walk_shallow(cf) if isinstance(a, ast.Assign) and dotted(a.targets[0]) == first]
    ok = ok and bool(got) and "kwargs.get('optimization'" in norm(got[0].value)
    # the marker is applied on every path: no return of the beartype variant may be reached without the store
    from sa.flow import Flow
    unmarked = []
    Flow(lambda node: ['marked'] if (isinstance(node, ast.Assign) and norm(node.targets[0]) == "kwargs['optimization']") else [],
         mode='must', on_exit=lambda node, kind, st: unmarked.append(node) if kind in ('return', 'fallthrough') and 'marked' not in st else None).run(cf)
    ctx.ob('C16.R4', 'marker:on-every-path', cm.where(unmarked[0]) if unmarked and unmarked[0] is not None else cm.where(cf),
           'every return of cache_from_source_beartype is preceded by the marker store: the path it returns is used for '
           'reading as well as for writing bytecode', not unmarked,
           f'the return at line {getattr(unmarked[0], "lineno", "?")} yields the un-marked path (hooked code would read and '
           f'write the cache file of un-hooked code)' if unmarked else '')
    ctx.ob('C16.R4', 'marker:appended-to-interpreter-tag', cm.where(cf),
           'the interpreter\'s optimisation tag is kept as a prefix of the beartype marker', ok, norm(kw[0])[:120] if kw else '')
    marker = ctx.folder.value('beartype._data.claw.dataclawmagic', 'OPTIMIZATION_MARKER_BEARTYPE')
    dm = repo.mod('beartype._data.claw.dataclawmagic')
    src = [st for st in dm.assigns.get('OPTIMIZATION_MARKER_BEARTYPE', [])]
    txt = norm(src[-1].value) if src else ''
    ok = bool(src) and ('VERSION' in txt.upper())
    ctx.ob('C16.R4', 'marker:version-bound-non-empty', dm.where(src[-1]) if src else dm.where(dm.tree.body[0]),
           'the marker embeds the beartype version (a new release never reuses old bytecode) and cannot be empty',
           ok and (not isinstance(marker, str) or len(marker) > 0), txt[:120])
