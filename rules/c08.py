"""C08 — coroutines and generators are wrapped as what they are.

Decided on the generated wrapper source of every abstract callable (4 kinds × checked /
unchecked / NoReturn returns × signatures):

R1  kind preservation: ``async def`` without ``yield`` for coroutines, ``def`` with
    ``yield from`` for generators, ``async def`` with ``yield`` for async generators, plain
    otherwise; the wrapper passes the compiler front-end;
R2  the value that is checked and handed back is the value the call produced (awaited for
    coroutines; the generator *object* for generators, which is then delegated to);
R3  the hand-written ``async yield from`` forwards values, exceptions and closure the way
    PEP 380 prescribes (dataflow facts on the template).
"""
from __future__ import annotations

import ast

from sa.astutil import dotted
from sa.flow import walk_shallow
from sa.repo import norm

from . import _wrap

TEMPL = 'beartype/_data/check/code/pep/datacodepep525.py:0'
DECOR = 'beartype/_check/cls/call/calldatadecorfunc.py:0'


def _stmt_of(node):
    while node is not None and not isinstance(node, ast.stmt):
        node = getattr(node, '_parent', None)
    return node


def run(ctx):
    N = _wrap.names(ctx)
    ws = _wrap.wrappers(ctx)
    PITH, FUNC = N['PITH_ROOT'], N['FUNC']
    ctx.rule('C08.R1', 'the generated wrapper is the same kind of callable as the wrappee (classified '
             'syntactically: async / yield) and compiles, for every callable kind × return-annotation kind')
    ctx.rule('C08.R2', 'coroutine: the call is awaited, the awaited value is bound to the root pith, checked and '
             'returned; generator: the generator object is bound (not awaited, not iterated), checked, then '
             'delegated to with `return (yield from …)`; async generator: likewise, then forwarded')
    ctx.rule('C08.R3', 'async yield from: the value sent into the wrapper flows to inner.asend when it is not None '
             'and to anext(inner) otherwise; an exception thrown in flows to inner.athrow; GeneratorExit is '
             'caught before BaseException, awaits inner.aclose() and re-raises; StopAsyncIteration is caught only '
             'around the forwarding awaits (never around the yield) and ends the wrapper; the value yielded is '
             'the last value obtained from the inner generator')
    agg = {}

    def note(rule, key, ok, detail, where):
        a = agg.setdefault((rule, key, where), [0, None])
        a[0] += 1
        if not ok and a[1] is None:
            a[1] = detail

    n_kind = 0
    for f, r, facts in ws:
        if not r.code or facts is None or not facts.ok:
            if r.raised is not None:
                note('C08.R1', f'generated:{f.kind}', False, f'{f.describe()}: raises {r.raised}', DECOR)
            continue
        desc = f.describe()
        n_kind += 1
        note('C08.R1', f'kind:{f.kind}:{f.ret_kind}', facts.kind == f.kind,
             f'{desc}: wrapper is {facts.kind} (async={facts.is_async}, yield={facts.has_yield or facts.has_yield_from})', DECOR)
        note('C08.R1', f'compiles:{f.kind}', facts.compiles, f'{desc}: {facts.compile_error}', DECOR)
        if len(facts.calls_through) != 1:
            continue
        call = facts.calls_through[0]
        par = call._parent
        awaited = isinstance(par, ast.Await)
        delegated = isinstance(par, ast.YieldFrom)
        st = _stmt_of(call)
        checked = f.ret_kind in ('class', 'deep')
        rets = [x for x in facts.returns if x.value is not None]
        if f.kind == 'coro':
            note('C08.R2', 'coro:call-awaited', awaited, f'{desc}: the call is not awaited: {norm(st)[:100]}', DECOR)
            if checked:
                ok = isinstance(st, ast.Assign) and dotted(st.targets[0]) == PITH and st.value is par
                note('C08.R2', 'coro:awaited-value-bound-and-returned',
                     ok and len(rets) == 1 and dotted(rets[0].value) == PITH,
                     f'{desc}: `{norm(st)[:80]}` … returns {[norm(x.value) for x in rets]}', DECOR)
            elif f.ret_kind in ('none', 'ignorable'):
                note('C08.R2', 'coro:unchecked-returns-awaited-call', len(rets) == 1 and rets[0].value is par,
                     f'{desc}: returns {[norm(x.value) for x in rets]}', DECOR)
        elif f.kind == 'gen':
            note('C08.R2', 'gen:call-not-awaited', not awaited, f'{desc}: generator call is awaited', DECOR)
            if checked:
                ok = isinstance(st, ast.Assign) and dotted(st.targets[0]) == PITH and st.value is call
                yf = [x for x in walk_shallow(facts.fn) if isinstance(x, ast.YieldFrom)]
                ok2 = len(yf) == 1 and dotted(yf[0].value) == PITH and len(rets) == 1 and rets[0].value is yf[0]
                note('C08.R2', 'gen:object-bound-checked-then-delegated', ok and ok2,
                     f'{desc}: `{norm(st)[:80]}`; yield from {[norm(x.value) for x in yf]}; returns {[norm(x.value) for x in rets]}', DECOR)
            elif f.ret_kind in ('none', 'ignorable'):
                note('C08.R2', 'gen:unchecked-delegates-to-call', delegated and len(rets) == 1 and rets[0].value is par,
                     f'{desc}: `{norm(st)[:100]}`', DECOR)
        elif f.kind == 'agen':
            note('C08.R2', 'agen:call-not-awaited', not awaited, f'{desc}: the async generator call is awaited', DECOR)
            ok = isinstance(st, ast.Assign) and dotted(st.targets[0]) == PITH and st.value is call
            note('C08.R2', 'agen:object-bound', ok, f'{desc}: `{norm(st)[:80]}`', DECOR)
            for key, good, detail in _agen_forwarding(facts.fn, PITH):
                note('C08.R3', key, good, f'{desc}: {detail}', TEMPL)
        else:
            note('C08.R2', 'sync:call-not-awaited', not awaited and not delegated, f'{desc}: {norm(st)[:80]}', DECOR)
        if f.ret_kind == 'noreturn' and f.kind in ('sync', 'coro'):
            # a NoReturn callable that returns: the wrapper must raise unconditionally after the call
            after = [s for s in facts.sites if s.pith_name not in f.__annotations__ or s.pith_name == 'return'
                     or s.order > facts.call_order]
            uncond = [s for s in facts.sites if s.order > facts.call_order]
            note('C08.R2', f'noreturn:{f.kind}:raises-after-call', len(uncond) == 1 and not rets,
                 f'{desc}: {len(uncond)} violation sites after the call, returns {[norm(x.value) for x in rets]}',
                 'beartype/_data/check/code/pep/datacodepep484.py:0')
    for (rule, key, where), (n, why) in sorted(agg.items()):
        ctx.ob(rule, key, where, f'{key} holds for {n} generated wrappers', why is None, why or '')
    ctx.floor('C08.R1', n_kind, 100, 'generated wrappers classified')
    n_agen = sum(1 for f, r, fa in ws if f.kind == 'agen' and r.code)
    ctx.floor('C08.R3', n_agen, 8, 'async-generator wrappers')


def _agen_forwarding(fn, inner: str):
    """PEP 380 obligations transposed to the async-generator forwarding loop."""
    out = []
    yields = [y for y in walk_shallow(fn) if isinstance(y, ast.Yield)]
    if len(yields) != 1:
        return [('agen:one-yield', False, f'{len(yields)} yield expressions')]
    y = yields[0]
    out.append(('agen:one-yield', True, ''))
    yst = _stmt_of(y)
    sent = dotted(yst.targets[0]) if isinstance(yst, ast.Assign) and yst.value is y else None
    yielded = dotted(y.value) if y.value is not None else None
    out.append(('agen:yield-result-captured', sent is not None and yielded is not None,
                f'yield statement `{norm(yst)[:80]}`'))
    # the try whose body contains the yield
    t = yst._parent
    while t is not None and not (isinstance(t, ast.Try) and yst in t.body):
        t = getattr(t, '_parent', None)
    if t is None:
        return out + [('agen:yield-inside-try', False, 'the yield is not directly inside a try body')]
    hnames = [dotted(h.type) if h.type is not None else None for h in t.handlers]
    out.append(('agen:no-StopAsyncIteration-around-yield', 'StopAsyncIteration' not in hnames and None not in hnames,
                f'handlers around the yield: {hnames}'))
    ge = hnames.index('GeneratorExit') if 'GeneratorExit' in hnames else -1
    be = hnames.index('BaseException') if 'BaseException' in hnames else -1
    out.append(('agen:GeneratorExit-before-BaseException', 0 <= ge < be, f'handlers {hnames}'))
    if ge >= 0:
        h = t.handlers[ge]
        closes = any(isinstance(x, ast.Await) and isinstance(x.value, ast.Call) and dotted(x.value.func) == f'{inner}.aclose'
                     for x in ast.walk(h))
        reraises = bool(h.body) and isinstance(h.body[-1], ast.Raise) and h.body[-1].exc is None
        out.append(('agen:close-propagated-and-reraised', closes and reraises,
                    f'awaits {inner}.aclose(): {closes}; ends with bare raise: {reraises}'))
    if be >= 0:
        h = t.handlers[be]
        exc = h.name
        thr = [x for x in ast.walk(h) if isinstance(x, ast.Await) and isinstance(x.value, ast.Call)
               and dotted(x.value.func) == f'{inner}.athrow']
        ok = bool(exc) and len(thr) == 1 and len(thr[0].value.args) == 1 and dotted(thr[0].value.args[0]) == exc
        st = _stmt_of(thr[0]) if thr else None
        ok2 = isinstance(st, ast.Assign) and dotted(st.targets[0]) == yielded
        out.append(('agen:exception-forwarded-to-athrow', ok and ok2,
                    f'handler binds {exc}; athrow statement `{norm(st)[:100] if st else None}`'))
        out.append(('agen:athrow-guards-StopAsyncIteration', bool(thr) and _guarded_by_stop(thr[0], h),
                    'athrow is not inside try/except StopAsyncIteration: return'))
    # else branch: asend / anext
    sends = [x for x in ast.walk(t) if isinstance(x, ast.Await) and isinstance(x.value, ast.Call)
             and dotted(x.value.func) == f'{inner}.asend']
    nexts = [x for x in ast.walk(t) if isinstance(x, ast.Await) and isinstance(x.value, ast.Call)
             and dotted(x.value.func) == 'anext' and x.value.args and dotted(x.value.args[0]) == inner]
    ok = len(sends) == 1 and len(sends[0].value.args) == 1 and dotted(sends[0].value.args[0]) == sent
    out.append(('agen:sent-value-forwarded-to-asend', ok, f'{len(sends)} asend calls; argument '
                f'{norm(sends[0].value.args[0]) if sends and sends[0].value.args else None}, sent variable {sent}'))
    if sends and nexts:
        s_st, n_st = _stmt_of(sends[0]), _stmt_of(nexts[0])
        branch = s_st._parent
        cond_ok = isinstance(branch, ast.If) and norm(branch.test) == f'{sent} is None' \
            and n_st in branch.body and s_st in branch.orelse
        out.append(('agen:asend-iff-sent-not-None', cond_ok,
                    f'branch `{norm(branch.test) if isinstance(branch, ast.If) else None}`: anext in body '
                    f'{isinstance(branch, ast.If) and n_st in branch.body}, asend in else '
                    f'{isinstance(branch, ast.If) and s_st in branch.orelse}'))
        both = all(isinstance(s, ast.Assign) and dotted(s.targets[0]) == yielded for s in (s_st, n_st))
        out.append(('agen:yielded-value-is-latest-from-inner', both,
                    f'asend / anext results are bound to {yielded}: {both}'))
        out.append(('agen:forwarding-awaits-guard-StopAsyncIteration',
                    _guarded_by_stop(sends[0], t) and _guarded_by_stop(nexts[0], t),
                    'asend / anext are not inside try/except StopAsyncIteration: return'))
    else:
        out.append(('agen:asend-iff-sent-not-None', False, f'{len(sends)} asend, {len(nexts)} anext awaits in the loop'))
    # priming anext before the loop
    prim = [x for x in walk_shallow(fn) if isinstance(x, ast.Await) and isinstance(x.value, ast.Call)
            and dotted(x.value.func) == 'anext' and x not in nexts]
    ok = len(prim) == 1 and isinstance(_stmt_of(prim[0]), ast.Assign) and dotted(_stmt_of(prim[0]).targets[0]) == yielded
    out.append(('agen:primed-before-loop', ok and _guarded_by_stop(prim[0], fn) if prim else False,
                f'{len(prim)} priming anext awaits'))
    return out


def _guarded_by_stop(node, stop_at) -> bool:
    """``node`` is in the body of a ``try`` with an ``except StopAsyncIteration: return`` handler."""
    child, p = node, getattr(node, '_parent', None)
    while p is not None and p is not stop_at:
        if isinstance(p, ast.Try) and any(child is s for s in p.body):
            for h in p.handlers:
                if dotted(h.type) == 'StopAsyncIteration' and h.body and isinstance(h.body[-1], ast.Return):
                    return True
        child, p = p, getattr(p, '_parent', None)
    return False
