"""C08 — coroutines and generators are wrapped as what they are.

Decided on the generated wrapper source of every abstract callable (4 kinds × checked /
unchecked / NoReturn returns × signatures):

R1  kind preservation: ``async def`` without ``yield`` for coroutines, ``def`` with
    ``yield from`` for generators, ``async def`` with ``yield`` for async generators, plain
    otherwise; the wrapper passes the compiler front-end;
R2  the value that is checked and handed back is the value the call produced (awaited for
    coroutines; the generator *object* for generators, which is then delegated to);
R3  the hand-written ``async yield from`` forwards values, exceptions and closure the way
    PEP 380 prescribes: the forwarding code of every generated wrapper is interpreted by the
    analyser's own protocol evaluator (sa/agenproto.py) against every caller script × inner
    generator script up to a bound and compared with the reference semantics.
R4  return annotations by callable kind: the return reducer (Coroutine[Y, S, R] → R for
    coroutines; generators only with hints they can return) and its place in the root
    sanifier (after string resolution), both interpreted.
"""
from __future__ import annotations

import ast

from sa.astutil import dotted
from sa.flow import walk_shallow
from sa.repo import norm

from . import _wrap

TEMPL = 'beartype/_data/check/code/pep/datacodepep525.py:0'
DECOR = 'beartype/_check/cls/call/calldatadecorfunc.py:0'


def _stmt_of(node):
    while node is not None and not isinstance(node, ast.stmt):
        node = getattr(node, '_parent', None)
    return node


def run(ctx):
    N = _wrap.names(ctx)
    ws = _wrap.wrappers(ctx)
    PITH, FUNC = N['PITH_ROOT'], N['FUNC']
    ctx.rule('C08.R1', 'the generated wrapper is the same kind of callable as the wrappee (classified '
             'syntactically: async / yield) and compiles, for every callable kind × return-annotation kind')
    ctx.rule('C08.R2', 'coroutine: the call is awaited, the awaited value is bound to the root pith, checked and '
             'returned; generator: the generator object is bound (not awaited, not iterated), checked, then '
             'delegated to with `return (yield from …)`; async generator: likewise, then forwarded')
    ctx.rule('C08.R3', 'async yield from, decided by interpreting the forwarding code of every generated async-generator '
             'wrapper (sa/agenproto.py: the analyser\'s own evaluator; the inner generator is a scripted abstract object '
             'that logs what is done to it) against every caller script over {anext, asend(v) truthy / falsy, '
             'athrow(Exception / StopAsyncIteration / BaseException / GeneratorExit), aclose} × every inner script over '
             '{yield, finish, raise} up to 4 operations (5 in the thorough tier): every caller operation reaches the '
             'inner generator as the same operation (asend(None) ≡ anext), the caller observes exactly what the inner '
             'generator answers, closure closes the inner generator and propagates GeneratorExit')
    agg = {}

    def note(rule, key, ok, detail, where):
        a = agg.setdefault((rule, key, where), [0, None])
        a[0] += 1
        if not ok and a[1] is None:
            a[1] = detail

    n_kind = 0
    for f, r, facts in ws:
        if not r.code or facts is None or not facts.ok:
            if r.raised is not None:
                note('C08.R1', f'generated:{f.kind}', False, f'{f.describe()}: raises {r.raised}', DECOR)
            continue
        desc = f.describe()
        n_kind += 1
        note('C08.R1', f'kind:{f.kind}:{f.ret_kind}', facts.kind == f.kind,
             f'{desc}: wrapper is {facts.kind} (async={facts.is_async}, yield={facts.has_yield or facts.has_yield_from})', DECOR)
        note('C08.R1', f'compiles:{f.kind}', facts.compiles, f'{desc}: {facts.compile_error}', DECOR)
        if len(facts.calls_through) != 1:
            continue
        call = facts.calls_through[0]
        par = call._parent
        awaited = isinstance(par, ast.Await)
        delegated = isinstance(par, ast.YieldFrom)
        st = _stmt_of(call)
        checked = f.ret_kind in ('class', 'deep')
        rets = [x for x in facts.returns if x.value is not None]
        if f.kind == 'coro':
            note('C08.R2', 'coro:call-awaited', awaited, f'{desc}: the call is not awaited: {norm(st)[:100]}', DECOR)
            if checked:
                ok = isinstance(st, ast.Assign) and dotted(st.targets[0]) == PITH and st.value is par
                note('C08.R2', 'coro:awaited-value-bound-and-returned',
                     ok and len(rets) == 1 and dotted(rets[0].value) == PITH,
                     f'{desc}: `{norm(st)[:80]}` … returns {[norm(x.value) for x in rets]}', DECOR)
            elif f.ret_kind in ('none', 'ignorable'):
                note('C08.R2', 'coro:unchecked-returns-awaited-call', len(rets) == 1 and rets[0].value is par,
                     f'{desc}: returns {[norm(x.value) for x in rets]}', DECOR)
        elif f.kind == 'gen':
            note('C08.R2', 'gen:call-not-awaited', not awaited, f'{desc}: generator call is awaited', DECOR)
            if checked:
                ok = isinstance(st, ast.Assign) and dotted(st.targets[0]) == PITH and st.value is call
                yf = [x for x in walk_shallow(facts.fn) if isinstance(x, ast.YieldFrom)]
                ok2 = len(yf) == 1 and dotted(yf[0].value) == PITH and len(rets) == 1 and rets[0].value is yf[0]
                note('C08.R2', 'gen:object-bound-checked-then-delegated', ok and ok2,
                     f'{desc}: `{norm(st)[:80]}`; yield from {[norm(x.value) for x in yf]}; returns {[norm(x.value) for x in rets]}', DECOR)
            elif f.ret_kind in ('none', 'ignorable'):
                note('C08.R2', 'gen:unchecked-delegates-to-call', delegated and len(rets) == 1 and rets[0].value is par,
                     f'{desc}: `{norm(st)[:100]}`', DECOR)
        elif f.kind == 'agen':
            note('C08.R2', 'agen:call-not-awaited', not awaited, f'{desc}: the async generator call is awaited', DECOR)
            ok = isinstance(st, ast.Assign) and dotted(st.targets[0]) == PITH and st.value is call
            note('C08.R2', 'agen:object-bound', ok, f'{desc}: `{norm(st)[:80]}`', DECOR)
            for key, good, detail in _agen_protocol(ctx, facts, PITH):
                note('C08.R3', key, good, f'{desc}: {detail}', TEMPL)
        else:
            note('C08.R2', 'sync:call-not-awaited', not awaited and not delegated, f'{desc}: {norm(st)[:80]}', DECOR)
        if f.ret_kind == 'noreturn' and f.kind in ('sync', 'coro'):
            # a NoReturn callable that returns: the wrapper must raise unconditionally after the call
            after = [s for s in facts.sites if s.pith_name not in f.__annotations__ or s.pith_name == 'return'
                     or s.order > facts.call_order]
            uncond = [s for s in facts.sites if s.order > facts.call_order]
            note('C08.R2', f'noreturn:{f.kind}:raises-after-call', len(uncond) == 1 and not rets,
                 f'{desc}: {len(uncond)} violation sites after the call, returns {[norm(x.value) for x in rets]}',
                 'beartype/_data/check/code/pep/datacodepep484.py:0')
    for (rule, key, where), (n, why) in sorted(agg.items()):
        ctx.ob(rule, key, where, f'{key} holds for {n} generated wrappers', why is None, why or '')
    ctx.floor('C08.R1', n_kind, 100, 'generated wrappers classified')
    n_agen = sum(1 for f, r, fa in ws if f.kind == 'agen' and r.code)
    ctx.floor('C08.R3', n_agen, 8, 'async-generator wrappers')
    _return_hint_reduction(ctx)


_PROTO_CACHE = {}


def _agen_protocol(ctx, facts, inner: str):
    """R3 by interpretation (sa/agenproto.py): the forwarding code of the generated async-generator wrapper, run by the
    analyser's own evaluator against every caller script × inner-generator script up to 4 operations (5 in the
    thorough tier), compared with PEP 380 transposed to asynchronous generators."""
    from sa import agenproto
    from sa.repo import AnalysisError
    fn = facts.fn
    call = facts.calls_through[0]
    st = _stmt_of(call)
    if st not in fn.body:
        return [('agen:call-through-at-top-level', False, 'the call of the wrappee is nested in another statement')]
    idx = fn.body.index(st)
    tail = '\n'.join(ast.unparse(x) for x in fn.body[idx + 1:])
    depth = 5 if ctx.tier == 'thorough' else 4
    key = (tail, depth)
    if key not in _PROTO_CACHE:
        try:
            _PROTO_CACHE[key] = agenproto.explore(fn, inner, idx + 1, depth=depth)
        except agenproto.ProtoAbort as ex:
            raise AnalysisError(f'cannot interpret the async-generator forwarding code: {ex}')
    n, bad = _PROTO_CACHE[key]
    out = []
    by = {}
    for ops, script, got, exp in bad:
        by.setdefault(_op_key(ops, got, exp), (ops, script, got, exp))
    for k in _ALL_KEYS:
        w = by.get(k)
        out.append((f'agen:protocol:{k}', w is None, '' if w is None else _describe(*w)))
    for k, w in by.items():
        if k not in _ALL_KEYS:
            out.append((f'agen:protocol:{k}', False, _describe(*w)))
    out.append(('agen:protocol:scenarios-explored', n >= 1000, f'{n} scenarios'))
    return out


_ALL_KEYS = ['priming', 'anext', 'asend', 'athrow:UserError', 'athrow:StopAsyncIteration', 'athrow:KeyboardInterrupt',
             'athrow:GeneratorExit', 'aclose']


def _op_key(ops, got, exp):
    """The caller operation at which the observed trace first departs from the reference."""
    g, e = got[0], exp[0]
    i = 0
    while i < len(g) and i < len(e) and g[i] == e[i]:
        i += 1
    if i >= len(g) and i >= len(e):
        # same results, different operations performed on the inner generator: attribute to the first differing one
        gl, el = got[1], exp[1]
        j = 0
        while j < len(gl) and j < len(el) and gl[j] == el[j]:
            j += 1
        i = min(j, len(ops) - 1)
    i = min(i, len(ops) - 1)
    if i == 0:
        return 'priming'
    op = ops[i]
    return op[0] if op[0] in ('anext', 'asend', 'aclose') else f'athrow:{op[1]}'


def _describe(ops, script, got, exp):
    def o(x):
        return x[0] + (f'({x[1]})' if len(x) > 1 else '()')
    return (f'caller: {", ".join(o(x) for x in ops)}; inner generator answers: {", ".join(o(x) for x in script)} — '
            f'the wrapper {"; ".join(o(x) for x in got[0])} after performing [{", ".join(o(x) for x in got[1])}] on the '
            f'inner generator; async-yield-from semantics: {"; ".join(o(x) for x in exp[0])} after [{", ".join(o(x) for x in exp[1])}]')


def _return_hint_reduction(ctx):
    """R4 by interpretation: what the return annotation of a coroutine / generator callable is reduced to, and when."""
    from sa.fold import AObj, FuncVal, Sym, _Abort, _Raise, _call_function
    from . import _gen
    repo = ctx.repo
    F = _gen.engines(ctx)[0].f
    ctx.rule('C08.R4', 'return annotations by callable kind, decided by interpretation: (a) reduce_hint_pep484585_func_return '
             'over kind ∈ {plain, coroutine, generator, async generator} × return hint ∈ {Coroutine[Y, S, R], Generator, '
             'Iterable, Iterator, AsyncGenerator, AsyncIterable, AsyncIterator, Any, object, an unrelated class}: a '
             'coroutine annotated Coroutine[Y, S, R] is checked against R, every other accepted combination keeps its '
             'hint, a generator annotated with something it cannot return is rejected at decoration time; (b) '
             'sanify_hint_root_func over {hint given as an object, hint given as a string} × {parameter, return}: the '
             'return reducer sees the resolved hint (string resolution first, published in the annotations), is applied '
             'to returns only, and its result is what is reduced further')
    RM = 'beartype._util.hint.pep.proposal.pep484585.pep484585func'
    rm = repo.mod(RM)
    red = F.const(RM, 'reduce_hint_pep484585_func_return')
    ctx.require(isinstance(red, FuncVal), 'anchor vanished: reduce_hint_pep484585_func_return')
    SIGNS = 'beartype._data.hint.sign.datahintsigns'

    class _Hint(AObj):
        def __init__(self, sign, args=()):
            self.sign, self.args = sign, tuple(args)

        def __repr__(self):
            return f'{self.sign or "Class"}{list(self.args) if self.args else ""}'

    class _Fn(AObj):
        def __init__(self, kind):
            self.kind = kind
            self.__name__ = self.__qualname__ = 'f'

        def __repr__(self):
            return f'<{self.kind} function>'
    saved_stubs, saved_i = dict(F.stubs), F.isinstance_hook
    T = 'beartype._util.func.utilfunctest.'
    F.stubs[T + 'is_func_coro'] = lambda e, a, k: a[0].kind == 'coro'
    F.stubs[T + 'is_func_sync_generator'] = lambda e, a, k: a[0].kind == 'gen'
    F.stubs[T + 'is_func_async_generator'] = lambda e, a, k: a[0].kind == 'agen'
    F.stubs['beartype._util.hint.pep.utilpepsign.get_hint_pep_sign_or_none'] = \
        lambda e, a, k: (F.const(SIGNS, 'HintSign' + a[0].sign) if isinstance(a[0], _Hint) and a[0].sign else None)
    F.stubs['beartype._util.hint.pep.proposal.pep484585.pep484585args.get_hint_pep484585_args'] = \
        lambda e, a, k: k.get('hint', a[0] if a else None).args
    F.stubs['beartype._util.cls.utilclstest.is_type_subclass'] = lambda e, a, k: False
    F.stubs['beartype._util.text.utiltextprefix.prefix_callable_return'] = lambda e, a, k: 'return of f '
    F.isinstance_hook = lambda o, c: (True if isinstance(o, dict) else (saved_i(o, c) if saved_i else None))
    saved_b = F.builtin_hook
    F.builtin_hook = lambda name, args, kw: (True if name == 'callable' and args and isinstance(args[0], _Fn) else (
        repr(args[0]) if name == 'repr' and args and isinstance(args[0], AObj) else (saved_b(name, args, kw) if saved_b else NotImplemented)))
    F.stubs['beartype._util.hint.pep.proposal.pep749.pep649749annotate.get_hintable_pep649749_annotations'] = \
        lambda e, a, k: {'return': 'the return hint'}
    R = _Hint(None)
    hints = {'Coroutine[Y, S, R]': _Hint('Coroutine', (_Hint(None), _Hint(None), R)), 'Generator': _Hint('Generator'),
             'Iterable': _Hint('Iterable'), 'Iterator': _Hint('Iterator'), 'AsyncGenerator': _Hint('AsyncGenerator'),
             'AsyncIterable': _Hint('AsyncIterable'), 'AsyncIterator': _Hint('AsyncIterator'), 'Any': _Hint('Any'),
             'object': Sym('builtin', 'object'), 'a class': _Hint(None)}
    SYNC_OK, ASYNC_OK = {'Generator', 'Iterable', 'Iterator', 'Any', 'object'}, {'AsyncGenerator', 'AsyncIterable', 'AsyncIterator', 'Any', 'object'}
    try:
        for kind in ('sync', 'coro', 'gen', 'agen'):
            for hname, h in hints.items():
                raised = out = None
                try:
                    out = _call_function(F, red, [], dict(func=_Fn(kind), func_annotations={'return': h, 'x': _Hint(None)},
                                                          exception_prefix=''), 1)
                except _Raise as ex:
                    raised = ex
                except _Abort as ex:
                    ctx.require(False, f'cannot interpret {red.qual}: {ex}')
                if kind == 'coro' and hname.startswith('Coroutine'):
                    ok, want = out is R, 'the third argument R'
                elif (kind == 'gen' and hname not in SYNC_OK) or (kind == 'agen' and hname not in ASYNC_OK):
                    ok, want = raised is not None and 'Beartype' in str(raised.what), 'a decoration-time beartype exception'
                else:
                    ok, want = out is h and raised is None, 'the hint itself'
                ctx.ob('C08.R4', f'return-hint:{kind}:{hname}', rm.where(red.node),
                       f'the return annotation {hname} of a {kind} callable reduces to {want}', ok,
                       f'evaluates to {out!r}' if raised is None else f'raises {raised}')
    finally:
        F.isinstance_hook, F.builtin_hook = saved_i, saved_b
        F.stubs.clear()
        F.stubs.update(saved_stubs)
    # (b) ordering and publication in the root sanifier
    CM = 'beartype._check.convert.convmain'
    cm = repo.mod(CM)
    san = F.const(CM, 'sanify_hint_root_func')
    ctx.require(isinstance(san, FuncVal), 'anchor vanished: sanify_hint_root_func')

    class _Decor(AObj):
        def __init__(self, ann):
            self.decoratee_annotations = ann
            self.func_wrappee = _Fn('coro')
            self.conf = 'CONF'

        def set_func_pith_hint(self, pith_name=None, hint=None, **kw):
            self.decoratee_annotations[pith_name] = hint
    seen = {}
    RESOLVED = _Hint('Coroutine', (_Hint(None), _Hint(None), R))
    saved_stubs = dict(F.stubs)
    F.stubs['beartype._check.convert._convcoerce.coerce_func_hint_root'] = \
        lambda e, a, k: (RESOLVED if isinstance(k.get('hint'), str) else k.get('hint'))
    F.stubs[RM + '.reduce_hint_pep484585_func_return'] = \
        lambda e, a, k: seen.setdefault('reducer-saw', k['func_annotations'].get('return')) and ('REDUCED', k['func_annotations'].get('return'))
    F.stubs['beartype._check.convert._reduce.redmain.reduce_hint'] = lambda e, a, k: ('SANE', k.get('hint'))
    try:
        for given in ('object', 'string'):
            for pith in ('return', 'x'):
                seen.clear()
                h0 = 'Coroutine[Y, S, R]' if given == 'string' else RESOLVED
                d = _Decor({'return': h0, 'x': h0})
                try:
                    out = _call_function(F, san, [], dict(decor_func=d, hint=h0, pith_name=pith, exception_prefix=''), 1)
                except (_Abort, _Raise) as ex:
                    ctx.require(False, f'cannot interpret {san.qual}: {ex}')
                tag = f'hint-given-as-{given}:{pith}'
                if pith == 'return':
                    ok = seen.get('reducer-saw') is RESOLVED and out == ('SANE', ('REDUCED', RESOLVED))
                    ctx.ob('C08.R4', f'root-sanifier:{tag}', cm.where(san.node),
                           'the return reducer is applied to the resolved hint and its result is what is reduced further',
                           ok, f'the return reducer saw {seen.get("reducer-saw")!r}; evaluates to {out!r}')
                else:
                    ok = 'reducer-saw' not in seen and out == ('SANE', RESOLVED)
                    ctx.ob('C08.R4', f'root-sanifier:{tag}', cm.where(san.node),
                           'a parameter hint is resolved and reduced, the return reducer is not applied to it', ok,
                           f'return reducer called: {"reducer-saw" in seen}; evaluates to {out!r}')
    finally:
        F.stubs.clear()
        F.stubs.update(saved_stubs)


def wrapper_kind(ctx, RULE):
    """The generated wrapper is the kind of callable the decorated callable is (shared with C04: a plain closure around a
    generator must not become a generator)."""
    ctx.rule(RULE, 'the generated wrapper is the same kind of callable (plain / coroutine / generator / async generator) as '
             'the callable that was decorated — decided from the decorated callable\'s own code object, also when it is a '
             'functools.wraps adapter of another kind or carries kind-neutral code flags')
    agg = {}
    for f, r, facts in _wrap.wrappers(ctx):
        if not r.code or facts is None or not facts.ok:
            continue
        a = agg.setdefault(f'kind:{f.kind}', [0, None])
        a[0] += 1
        if facts.kind != f.kind and a[1] is None:
            a[1] = f'{f.describe()}: wrapper is {facts.kind}'
    for k, (n, why) in sorted(agg.items()):
        ctx.ob(RULE, k, DECOR, f'{k} holds for {n} generated wrappers', why is None, why or '')
