"""C20 — infer_hint round trip (necessary conditions only).

R1  input-independent returns must accept everything (a hint returned without looking at
    the object has to be ignorable);
R2  the protocol state machine only yields abstract factories (never a concrete builtin);
R3  the recursion guard is threaded: every recursive infer_hint call passes the seen-set that
    was extended with id(obj); the guard test precedes any recursion;
R4  inferred builtin factories are checkable (have a deep or origin-isinstanceable sign).
The round trip itself for all objects is not decided.
"""
from __future__ import annotations

import ast

from sa.astutil import dotted, params_of
from sa.flow import walk_shallow
from sa.repo import norm, parent

MAIN = 'beartype.bite._infermain'
ITEMS = 'beartype.bite.collection.infercollectionitems'
ABC = 'beartype.bite.collection.infercollectionsabc'
BUILTIN = 'beartype.bite.collection.infercollectionbuiltin'
SEEN = '__beartype_obj_ids_seen__'


def run(ctx):
    repo = ctx.repo
    m = repo.mod(MAIN)
    fn = m.defs.get('infer_hint')
    ctx.require(fn is not None, 'anchor vanished: infer_hint')

    # ---- R1 ----------------------------------------------------------------------
    ctx.rule('C20.R1', 'a return of infer_hint whose value does not depend on obj must be a hint that accepts every '
             'object (object / Any): whatever obj is, is_bearable(obj, result) has to hold')
    n = 0
    for r in [x for x in walk_shallow(fn) if isinstance(x, ast.Return) and x.value is not None]:
        names = {x.id for x in ast.walk(r.value) if isinstance(x, ast.Name)}
        local_from_obj = _derived_from(fn, 'obj')
        dep = bool(names & ({'obj'} | local_from_obj))
        n += 1
        if dep:
            ctx.ob('C20.R1', f'infer_hint:return:{norm(r.value)[:40]}', m.where(r), 'the returned hint is computed from the object', True)
            continue
        ok = norm(r.value) in ('object', 'Any')
        ctx.ob('C20.R1', f'infer_hint:return:{norm(r.value)[:40]}', m.where(r),
               'an input-independent result accepts every object', ok,
               f'`return {norm(r.value)}` is returned for self-referential containers: it is a plain class that the '
               f'container is not an instance of, so is_bearable(obj, infer_hint(obj)) is False')
    ctx.floor('C20.R1', n, 5, 'returns of infer_hint')

    # ---- R2 ----------------------------------------------------------------------
    ctx.rule('C20.R2', 'every hint_factory= of the protocol finite-state machine resolves to a collections.abc / '
             'beartype.typing protocol alias, never to a concrete builtin type (deviance among sibling nodes): a '
             'concrete factory rejects other implementations of the same protocol')
    am = repo.mod(ABC)
    fsm = am.defs.get('get_finite_state_machine')
    ctx.require(fsm is not None, 'anchor vanished: get_finite_state_machine')
    facs = [k for c in ast.walk(fsm) if isinstance(c, ast.Call) for k in c.keywords if k.arg == 'hint_factory']
    for k in facs:
        nm = dotted(k.value)
        r = repo.resolve_name(am, k.value, nm) if isinstance(k.value, ast.Name) else None
        concrete = r is not None and r.kind == 'builtin'
        ctx.ob('C20.R2', f'fsm-node:hint_factory={nm}', am.where(k.value),
               'the factory of a protocol node is an abstract protocol', not concrete,
               f'hint_factory={nm} is the concrete builtin: dictionary views implement the Set protocol but are not '
               f'instances of {nm}')
    ctx.floor('C20.R2', len(facs), 15, 'state-machine nodes')

    # ---- R3 ----------------------------------------------------------------------
    ctx.rule('C20.R3', 'recursion guard: infer_hint tests id(obj) against the seen-set before any other work; the item '
             'inferers extend the seen-set with id(obj) before recursing and every recursive infer_hint(…) call '
             'passes that set')
    first = next((s for s in fn.body if not (isinstance(s, ast.Expr) and isinstance(s.value, ast.Constant))), None)
    ok = isinstance(first, ast.If) and norm(first.test) == f'id(obj) in {SEEN}' and isinstance(first.body[-1], ast.Return)
    ctx.ob('C20.R3', 'infer_hint:guard-first', m.where(first or fn), 'the recursion guard is the first statement', ok,
           norm(first.test) if isinstance(first, ast.If) else type(first).__name__)
    im = repo.mod(ITEMS)
    top = im.defs.get('infer_hint_collection_items')
    ctx.require(top is not None, 'anchor vanished: infer_hint_collection_items')
    ext = [a for a in walk_shallow(top) if isinstance(a, ast.AugAssign) and dotted(a.target) == SEEN and 'id(obj)' in norm(a.value)]
    calls_after = [c for c in walk_shallow(top) if isinstance(c, ast.Call) and any(k.arg == SEEN for k in c.keywords)]
    ok = len(ext) == 1 and all(c.lineno > ext[0].lineno for c in calls_after) and bool(calls_after)
    ctx.ob('C20.R3', 'infer_hint_collection_items:extends-seen-set', im.where(top),
           'the seen-set is extended with id(obj) before it is handed to the item inferers', ok, '')
    n = 0
    for mn in (ITEMS, ABC, BUILTIN):
        mod = repo.mod(mn)
        for c in ast.walk(mod.tree):
            if isinstance(c, ast.Call) and dotted(c.func) == 'infer_hint':
                n += 1
                kw = {k.arg: norm(k.value) for k in c.keywords if k.arg}
                star = any(k.arg is None for k in c.keywords)
                ok = kw.get(SEEN) == SEEN or star
                ctx.ob('C20.R3', f'recursive-call:{mn.split(".")[-1]}:{c.lineno and norm(c.args[0])[:30] if c.args else norm(c)[:30]}',
                       mod.where(c), 'a recursive infer_hint call passes the seen-set', ok, norm(c)[:100])
    ctx.floor('C20.R3', n, 6, 'recursive infer_hint calls')

    # ---- R4 ----------------------------------------------------------------------
    ctx.rule('C20.R4', 'every builtin collection type the inferer maps to a subscriptable factory has a sign that the '
             'type-checker supports deeply or by origin isinstance')
    bm = repo.mod(BUILTIN)
    facs = {}
    # the builtin-type → factory table, by role: the dictionary display of names to names in the inference package
    # (wherever it lives: the inferer module or a data module next to it)
    pkg = BUILTIN.rsplit('.', 1)[0]
    for mn_, m_ in sorted(repo.modules.items()):
        if not mn_.startswith(pkg):
            continue
        for nm, sts in m_.assigns.items():
            for st in sts:
                v = getattr(st, 'value', None)
                if isinstance(v, ast.Dict) and len(v.keys) >= 8 and all(isinstance(k, ast.Name) and isinstance(x, ast.Name)
                                                                       for k, x in zip(v.keys, v.values)):
                    bm = m_
                    for k, val in zip(v.keys, v.values):
                        facs[k.id] = val.id
    deep = ctx.folder.const('beartype._data.hint.sign.datahintsignset', 'HINT_SIGNS_SUPPORTED_DEEP')
    orig = ctx.folder.const('beartype._data.hint.sign.datahintsignset', 'HINT_SIGNS_ORIGIN_ISINSTANCEABLE')
    have = {(s.args[0] if s.args else s.get('name')) for s in (deep | orig)}
    for cls_name, fac in sorted(facs.items()):
        ctx.ob('C20.R4', f'builtin-factory:{cls_name}->{fac}', bm.where(bm.tree.body[0]),
               f'hints built from the {fac} factory are checkable (a sign of that name is supported)', fac in have,
               f'no supported sign named {fac}')
    ctx.floor('C20.R4', len(facs), 8, 'builtin collection factories')
    # arity: the item inferer subscripts a factory with key and value hints iff the builtin type is a Mapping
    # (Counter: key only), with one item hint otherwise; that number must be one the type-checker accepts for
    # the sign of that name (folded HINT_SIGN_ORIGIN_ISINSTANCEABLE_TO_ARGS_LEN_RANGE)
    rng = ctx.folder.const('beartype._data.hint.sign.datahintsignmap', 'HINT_SIGN_ORIGIN_ISINSTANCEABLE_TO_ARGS_LEN_RANGE')
    by_name = {(k.args[0] if getattr(k, 'args', None) else str(k)): v for k, v in rng.items()}
    MAPPING_TYPES = {'dict', 'ChainMapType', 'CounterType', 'defaultdict', 'OrderedDict', 'DefaultDictType', 'OrderedDictType'}
    for cls_name, fac in sorted(facs.items()):
        r = by_name.get(fac)
        if r is None:
            continue
        n_args = (1 if fac == 'Counter' else 2) if cls_name in MAPPING_TYPES else (2 if fac == 'Tuple' else 1)
        ok = n_args in r
        ctx.ob('C20.R4', f'builtin-factory-arity:{cls_name}->{fac}', bm.where(bm.tree.body[0]),
               f'{fac} is subscripted by the inferer with a number of child hints the type-checker accepts', ok,
               f'the inferer subscripts {fac} with {n_args} child hint(s) for {cls_name} objects ({cls_name} is '
               f'{"" if cls_name in MAPPING_TYPES else "not "}a Mapping); the checker requires {list(r)}')

    # ---- R5 ----------------------------------------------------------------------
    ctx.rule('C20.R5', 'the inferred item hint covers every item, decided by interpreting infer_hint_collection_items over '
             'abstract collections (sequence, non-sequence collection, mapping, Counter, root tuple; 1–3 items) × strategy: '
             'under On the factory is subscripted with the union of the hints inferred for every item (every key and every '
             'value; every position of a short root tuple); under O1 with the hint of one item; an empty collection yields '
             'the bare factory')
    _items_cover(ctx)


def _derived_from(fn, root: str) -> set:
    out = {root}
    changed = True
    while changed:
        changed = False
        for a in walk_shallow(fn):
            if isinstance(a, ast.Assign) and isinstance(a.targets[0], ast.Name) and a.targets[0].id not in out:
                if any(isinstance(x, ast.Name) and x.id in out for x in ast.walk(a.value)):
                    out.add(a.targets[0].id)
                    changed = True
            if isinstance(a, ast.For) and isinstance(a.target, ast.Name) and a.target.id not in out:
                out.add(a.target.id)     # loop variables over inferers applied to obj
                changed = True
    return out


def _items_cover(ctx):
    from sa.fold import AObj, FuncVal, Sym, _Abort, _Raise, _call_function
    from sa.gen import AConf
    from . import _gen
    repo = ctx.repo
    F = _gen.engines(ctx)[0].f
    im = repo.mod(ITEMS)
    fn = F.const(ITEMS, 'infer_hint_collection_items')
    ctx.require(isinstance(fn, FuncVal), 'anchor vanished: infer_hint_collection_items')

    class _Item(AObj):
        def __init__(self, what):
            self.what = what
            # items 0 and 1 are instances of one type (with different contents), item 2 of another
            self._abstract_type = 'type-B' if what.endswith(' 2') else 'type-A'

        def __repr__(self):
            return f'<{self.what}>'

    class _Fac(AObj):
        def __init__(self, name):
            self.name = name

        def __getitem__(self, args):
            return ('subscripted', self.name, args)

        def __repr__(self):
            return self.name

    class _Col(AObj):
        def __init__(self, kind, n):
            self.kind, self.n = kind, n
            self.elems = [_Item(f'item {i}') for i in range(n)]
            self.vals = [_Item(f'value {i}') for i in range(n)]

        def __len__(self):
            return self.n

        def __bool__(self):
            return self.n > 0

        def __iter__(self):
            return iter(self.elems)

        def __getitem__(self, i):
            return self.elems[i]

        def items(self):
            return list(zip(self.elems, self.vals))

        def __repr__(self):
            return f'<{self.kind} of {self.n}>'
    saved_stubs, saved_i, saved_b = dict(F.stubs), F.isinstance_hook, F.builtin_hook
    F.stubs['beartype.bite._infermain.infer_hint'] = lambda e, a, k: ('hint-of', k.get('obj', a[0] if a else None))
    F.stubs['beartype._util.hint.pep.proposal.pep484.pep484604union.make_hint_pep484604_union'] = lambda e, a, k: ('union', frozenset(a[0]))
    F.stubs['beartype._util.hint.pep.proposal.pep646.pep484585646tuple.make_hint_pep484585_tuple_fixed'] = lambda e, a, k: ('tuple-fixed', tuple(a[0]))
    F.stubs['beartype._util.kind.integer.utilintget.get_integer_pseudorandom_signed_32bit'] = lambda e, a, k: 7
    TUPLE, COUNTER, LIST, SET, DICT = _Fac('Tuple'), _Fac('Counter'), _Fac('List'), _Fac('Set'), _Fac('Dict')
    olds = [(n_, F.patch_global(ITEMS, n_, v_)) for n_, v_ in (('Tuple', TUPLE), ('Counter', COUNTER))]

    def ih(obj, c):
        r = repr(c)
        if isinstance(obj, _Col):
            if 'Sequence' in r:
                return obj.kind in ('sequence', 'tuple')
            if 'Mapping' in r:
                return obj.kind in ('mapping', 'counter')
            return True
        if isinstance(obj, str) and obj.startswith('TYPE:'):
            return True
        if isinstance(obj, AConf):
            return True
        return saved_i(obj, c) if saved_i else None

    def bh(name, args, kw):
        if name == 'issubclass' and args and isinstance(args[0], str) and args[0].startswith('TYPE:'):
            return ('Mapping' in repr(args[1])) == (args[0] in ('TYPE:mapping', 'TYPE:counter'))
        if name == 'id' and args and isinstance(args[0], AObj):
            return id(args[0])
        if name == 'type' and len(args) == 1 and isinstance(args[0], _Item):
            return args[0]._abstract_type
        if name in ('len', 'bool', 'iter', 'next') and args and isinstance(args[0], _Col):
            return {'len': len, 'bool': bool, 'iter': lambda c: tuple(c), 'next': next}[name](args[0])
        if name == 'next' and args and isinstance(args[0], (tuple, list)) and args[0]:
            return args[0][0]
        if name == 'iter' and args and isinstance(args[0], (tuple, list)):
            return tuple(args[0])
        if name in ('set', 'frozenset', 'tuple', 'list') and args and isinstance(args[0], (tuple, list, set, frozenset)):
            return {'set': set, 'frozenset': frozenset, 'tuple': tuple, 'list': list}[name](args[0])
        return saved_b(name, args, kw) if saved_b else NotImplemented
    F.isinstance_hook, F.builtin_hook = ih, bh
    cenum = repo.mod('beartype._conf.confenum')
    ON = F.eval_in(cenum, ast.parse('BeartypeStrategy.On', mode='eval').body)
    O1 = F.eval_in(cenum, ast.parse('BeartypeStrategy.O1', mode='eval').body)
    n = 0
    try:
        for kind, fac in (('sequence', LIST), ('collection', SET), ('mapping', DICT), ('counter', COUNTER), ('tuple', TUPLE)):
            for size in (0, 1, 2, 3):
                for sname, strat in (('On', ON), ('O1', O1)):
                    for nested in ((False, True) if kind == 'tuple' else (False,)):
                        col = _Col(kind, size)
                        seen = frozenset({12345}) if nested else frozenset()
                        try:
                            out = _call_function(F, fn, [], dict(obj=col, hint_factory=fac, conf=AConf(strategy=strat),
                                                                 __beartype_obj_ids_seen__=seen, origin_type=f'TYPE:{kind}'), 1)
                        except (_Abort, _Raise) as ex:
                            ctx.require(False, f'cannot interpret infer_hint_collection_items ({kind}, {size} items, {sname}): {ex}')
                        n += 1
                        H = lambda x: ('hint-of', x)
                        every = frozenset(H(x) for x in col.elems)
                        everyv = frozenset(H(x) for x in col.vals)

                        def covers(h, whole, one_of):
                            # the hint of a single item, or the union of the hints of all
                            if sname == 'On' or size == 1:
                                return h == ('union', whole) or (len(whole) == 1 and h in whole)
                            return h in one_of
                        if size == 0:
                            ok, want = out is fac, 'the bare factory'
                        elif kind == 'tuple' and not nested:
                            ok, want = out == ('tuple-fixed', tuple(H(x) for x in col.elems)), 'a fixed-length tuple hint of every position'
                        elif kind in ('mapping', 'counter'):
                            args = out[2] if isinstance(out, tuple) and out[:2] == ('subscripted', fac.name) else None
                            if kind == 'counter':
                                ok = args is not None and covers(args, every, every)
                            else:
                                ok = isinstance(args, tuple) and len(args) == 2 and covers(args[0], every, every) and covers(args[1], everyv, everyv)
                            want = 'the factory subscripted by the hints of every key' + ('' if kind == 'counter' else ' and every value')
                        else:
                            args = out[2] if isinstance(out, tuple) and out[:2] == ('subscripted', fac.name) else None
                            item_h = args[0] if (kind == 'tuple' and isinstance(args, tuple) and len(args) == 2) else args
                            ok = args is not None and covers(item_h, every, every) and (kind != 'tuple' or args[1] is Ellipsis or repr(args[1]) == 'Ellipsis')
                            want = 'the factory subscripted by the hints of every item'
                        if sname == 'O1' and size > 1 and not (kind == 'tuple' and not nested):
                            want = want.replace('every', 'one')
                        ctx.ob('C20.R5', f'items:{kind}{"(nested)" if nested else ""}:{size}-items:{sname}', im.where(fn.node),
                               f'a {kind} of {size} item(s) under {sname} is hinted as {want}', ok, f'evaluates to {out!r}')
    finally:
        F.isinstance_hook, F.builtin_hook = saved_i, saved_b
        for n_, o_ in olds:
            F.patch_global(ITEMS, n_, o_)
        F.stubs.clear()
        F.stubs.update(saved_stubs)
    ctx.floor('C20.R5', n, 40, 'collection shapes × strategies')
