"""C20 — infer_hint round trip (necessary conditions only).

R1  input-independent returns must accept everything (a hint returned without looking at
    the object has to be ignorable);
R2  the protocol state machine only yields abstract factories (never a concrete builtin);
R3  the recursion guard is threaded: every recursive infer_hint call passes the seen-set that
    was extended with id(obj); the guard test precedes any recursion;
R4  inferred builtin factories are checkable (have a deep or origin-isinstanceable sign).
The round trip itself for all objects is not decided.
"""
from __future__ import annotations

import ast

from sa.astutil import dotted, params_of
from sa.flow import walk_shallow
from sa.repo import norm, parent

MAIN = 'beartype.bite._infermain'
ITEMS = 'beartype.bite.collection.infercollectionitems'
ABC = 'beartype.bite.collection.infercollectionsabc'
BUILTIN = 'beartype.bite.collection.infercollectionbuiltin'
SEEN = '__beartype_obj_ids_seen__'


def run(ctx):
    repo = ctx.repo
    m = repo.mod(MAIN)
    fn = m.defs.get('infer_hint')
    ctx.require(fn is not None, 'anchor vanished: infer_hint')

    # ---- R1 ----------------------------------------------------------------------
    ctx.rule('C20.R1', 'a return of infer_hint whose value does not depend on obj must be a hint that accepts every '
             'object (object / Any): whatever obj is, is_bearable(obj, result) has to hold')
    n = 0
    for r in [x for x in walk_shallow(fn) if isinstance(x, ast.Return) and x.value is not None]:
        names = {x.id for x in ast.walk(r.value) if isinstance(x, ast.Name)}
        local_from_obj = _derived_from(fn, 'obj')
        dep = bool(names & ({'obj'} | local_from_obj))
        n += 1
        if dep:
            ctx.ob('C20.R1', f'infer_hint:return:{norm(r.value)[:40]}', m.where(r), 'the returned hint is computed from the object', True)
            continue
        ok = norm(r.value) in ('object', 'Any')
        ctx.ob('C20.R1', f'infer_hint:return:{norm(r.value)[:40]}', m.where(r),
               'an input-independent result accepts every object', ok,
               f'`return {norm(r.value)}` is returned for self-referential containers: it is a plain class that the '
               f'container is not an instance of, so is_bearable(obj, infer_hint(obj)) is False')
    ctx.floor('C20.R1', n, 5, 'returns of infer_hint')

    # ---- R2 ----------------------------------------------------------------------
    ctx.rule('C20.R2', 'every hint_factory= of the protocol finite-state machine resolves to a collections.abc / '
             'beartype.typing protocol alias, never to a concrete builtin type (deviance among sibling nodes): a '
             'concrete factory rejects other implementations of the same protocol')
    am = repo.mod(ABC)
    fsm = am.defs.get('get_finite_state_machine')
    ctx.require(fsm is not None, 'anchor vanished: get_finite_state_machine')
    facs = [k for c in ast.walk(fsm) if isinstance(c, ast.Call) for k in c.keywords if k.arg == 'hint_factory']
    for k in facs:
        nm = dotted(k.value)
        r = repo.resolve_name(am, k.value, nm) if isinstance(k.value, ast.Name) else None
        concrete = r is not None and r.kind == 'builtin'
        ctx.ob('C20.R2', f'fsm-node:hint_factory={nm}', am.where(k.value),
               'the factory of a protocol node is an abstract protocol', not concrete,
               f'hint_factory={nm} is the concrete builtin: dictionary views implement the Set protocol but are not '
               f'instances of {nm}')
    ctx.floor('C20.R2', len(facs), 15, 'state-machine nodes')

    # ---- R3 ----------------------------------------------------------------------
    ctx.rule('C20.R3', 'recursion guard: infer_hint tests id(obj) against the seen-set before any other work; the item '
             'inferers extend the seen-set with id(obj) before recursing and every recursive infer_hint(…) call '
             'passes that set')
    first = next((s for s in fn.body if not (isinstance(s, ast.Expr) and isinstance(s.value, ast.Constant))), None)
    ok = isinstance(first, ast.If) and norm(first.test) == f'id(obj) in {SEEN}' and isinstance(first.body[-1], ast.Return)
    ctx.ob('C20.R3', 'infer_hint:guard-first', m.where(first or fn), 'the recursion guard is the first statement', ok,
           norm(first.test) if isinstance(first, ast.If) else type(first).__name__)
    im = repo.mod(ITEMS)
    top = im.defs.get('infer_hint_collection_items')
    ctx.require(top is not None, 'anchor vanished: infer_hint_collection_items')
    ext = [a for a in walk_shallow(top) if isinstance(a, ast.AugAssign) and dotted(a.target) == SEEN and 'id(obj)' in norm(a.value)]
    calls_after = [c for c in walk_shallow(top) if isinstance(c, ast.Call) and any(k.arg == SEEN for k in c.keywords)]
    ok = len(ext) == 1 and all(c.lineno > ext[0].lineno for c in calls_after) and bool(calls_after)
    ctx.ob('C20.R3', 'infer_hint_collection_items:extends-seen-set', im.where(top),
           'the seen-set is extended with id(obj) before it is handed to the item inferers', ok, '')
    n = 0
    for mn in (ITEMS, ABC, BUILTIN):
        mod = repo.mod(mn)
        for c in ast.walk(mod.tree):
            if isinstance(c, ast.Call) and dotted(c.func) == 'infer_hint':
                n += 1
                kw = {k.arg: norm(k.value) for k in c.keywords if k.arg}
                star = any(k.arg is None for k in c.keywords)
                ok = kw.get(SEEN) == SEEN or star
                ctx.ob('C20.R3', f'recursive-call:{mn.split(".")[-1]}:{c.lineno and norm(c.args[0])[:30] if c.args else norm(c)[:30]}',
                       mod.where(c), 'a recursive infer_hint call passes the seen-set', ok, norm(c)[:100])
    ctx.floor('C20.R3', n, 6, 'recursive infer_hint calls')

    # ---- R4 ----------------------------------------------------------------------
    ctx.rule('C20.R4', 'every builtin collection type the inferer maps to a subscriptable factory has a sign that the '
             'type-checker supports deeply or by origin isinstance')
    bm = repo.mod(BUILTIN)
    facs = {}
    for nm, sts in bm.assigns.items():
        for st in sts:
            v = getattr(st, 'value', None)
            if isinstance(v, ast.Dict):
                for k, val in zip(v.keys, v.values):
                    if isinstance(k, ast.Name) and isinstance(val, ast.Name):
                        facs[k.id] = val.id
    deep = ctx.folder.const('beartype._data.hint.sign.datahintsignset', 'HINT_SIGNS_SUPPORTED_DEEP')
    orig = ctx.folder.const('beartype._data.hint.sign.datahintsignset', 'HINT_SIGNS_ORIGIN_ISINSTANCEABLE')
    have = {(s.args[0] if s.args else s.get('name')) for s in (deep | orig)}
    for cls_name, fac in sorted(facs.items()):
        ctx.ob('C20.R4', f'builtin-factory:{cls_name}->{fac}', bm.where(bm.tree.body[0]),
               f'hints built from the {fac} factory are checkable (a sign of that name is supported)', fac in have,
               f'no supported sign named {fac}')
    ctx.floor('C20.R4', len(facs), 8, 'builtin collection factories')
    # arity: the item inferer subscripts a factory with key and value hints iff the builtin type is a Mapping
    # (Counter: key only), with one item hint otherwise; that number must be one the type-checker accepts for
    # the sign of that name (folded HINT_SIGN_ORIGIN_ISINSTANCEABLE_TO_ARGS_LEN_RANGE)
    rng = ctx.folder.const('beartype._data.hint.sign.datahintsignmap', 'HINT_SIGN_ORIGIN_ISINSTANCEABLE_TO_ARGS_LEN_RANGE')
    by_name = {(k.args[0] if getattr(k, 'args', None) else str(k)): v for k, v in rng.items()}
    MAPPING_TYPES = {'dict', 'ChainMapType', 'CounterType', 'defaultdict', 'OrderedDict', 'DefaultDictType', 'OrderedDictType'}
    for cls_name, fac in sorted(facs.items()):
        r = by_name.get(fac)
        if r is None:
            continue
        n_args = (1 if fac == 'Counter' else 2) if cls_name in MAPPING_TYPES else (2 if fac == 'Tuple' else 1)
        ok = n_args in r
        ctx.ob('C20.R4', f'builtin-factory-arity:{cls_name}->{fac}', bm.where(bm.tree.body[0]),
               f'{fac} is subscripted by the inferer with a number of child hints the type-checker accepts', ok,
               f'the inferer subscripts {fac} with {n_args} child hint(s) for {cls_name} objects ({cls_name} is '
               f'{"" if cls_name in MAPPING_TYPES else "not "}a Mapping); the checker requires {list(r)}')

    # ---- R5 ----------------------------------------------------------------------
    ctx.rule('C20.R5', 'under the On strategy the inferred item hint covers every item: each loop over the object (or '
             'its items()) in the item inferers calls infer_hint on the loop variable directly in the loop body — not '
             'under a condition — has no continue / break, and adds the result to the aggregate that becomes the union')
    im2 = repo.mod(ITEMS)
    n5 = 0
    for fname in ('_infer_hint_reiterable_items', '_infer_hint_mapping_items'):
        fn = im2.defs.get(fname)
        ctx.require(fn is not None, f'anchor vanished: {fname}')
        p0 = fn.args.args[0].arg
        for lp in [x for x in ast.walk(fn) if isinstance(x, ast.For) and norm(x.iter) in (p0, f'{p0}.items()')]:
            n5 += 1
            tv = [t.id for t in ast.walk(lp.target) if isinstance(t, ast.Name)]
            exits = [x for x in ast.walk(lp) if isinstance(x, (ast.Continue, ast.Break))]
            direct = [st for st in lp.body if isinstance(st, ast.Assign) and isinstance(st.value, ast.Call)
                      and dotted(st.value.func) == 'infer_hint' and any(k.arg == 'obj' and dotted(k.value) in tv for k in st.value.keywords)]
            covered = {dotted(k.value) for st in direct for k in st.value.keywords if k.arg == 'obj'}
            results = {dotted(st.targets[0]) for st in direct}
            added = {dotted(c.args[0]) for st in lp.body if isinstance(st, ast.Expr) and isinstance(st.value, ast.Call)
                     and isinstance(st.value.func, ast.Attribute) and st.value.func.attr in ('add', 'append') for c in [st.value] if c.args}
            ok = not exits and set(tv) <= covered and results <= added
            ctx.ob('C20.R5', f'{fname}:loop-over:{norm(lp.iter)}#{n5}:covers-every-item', im2.where(lp),
                   'every item is inferred and contributes to the union', ok,
                   f'exits: {[norm(x) for x in exits]}; inferred directly: {sorted(covered)} of {tv}; aggregated: {sorted(added)}')
    ctx.floor('C20.R5', n5, 3, 'item loops of the inferers')


def _derived_from(fn, root: str) -> set:
    out = {root}
    changed = True
    while changed:
        changed = False
        for a in walk_shallow(fn):
            if isinstance(a, ast.Assign) and isinstance(a.targets[0], ast.Name) and a.targets[0].id not in out:
                if any(isinstance(x, ast.Name) and x.id in out for x in ast.walk(a.value)):
                    out.add(a.targets[0].id)
                    changed = True
            if isinstance(a, ast.For) and isinstance(a.target, ast.Name) and a.target.id not in out:
                out.add(a.target.id)     # loop variables over inferers applied to obj
                changed = True
    return out
