"""C20 — infer_hint round trip (necessary conditions only).

R1  input-independent returns must accept everything (a hint returned without looking at
    the object has to be ignorable);
R2  the protocol state machine only yields abstract factories (never a concrete builtin);
R3  the recursion guard is threaded: every recursive infer_hint call passes the seen-set that
    was extended with id(obj); the guard test precedes any recursion;
R4  inferred builtin factories are checkable (have a deep or origin-isinstanceable sign).
The round trip itself for all objects is not decided.
"""
from __future__ import annotations

import ast

from sa.astutil import dotted, params_of
from sa.flow import walk_shallow
from sa.repo import norm, parent

MAIN = 'beartype.bite._infermain'
ITEMS = 'beartype.bite.collection.infercollectionitems'
ABC = 'beartype.bite.collection.infercollectionsabc'
BUILTIN = 'beartype.bite.collection.infercollectionbuiltin'
SEEN = '__beartype_obj_ids_seen__'


def run(ctx):
    repo = ctx.repo
    m = repo.mod(MAIN)
    fn = m.defs.get('infer_hint')
    ctx.require(fn is not None, 'anchor vanished: infer_hint')

    # ---- R1 ----------------------------------------------------------------------
    ctx.rule('C20.R1', 'a return of infer_hint whose value does not depend on obj must be a hint that accepts every '
             'object (object / Any): whatever obj is, is_bearable(obj, result) has to hold')
    n = 0
    for r in [x for x in walk_shallow(fn) if isinstance(x, ast.Return) and x.value is not None]:
        names = {x.id for x in ast.walk(r.value) if isinstance(x, ast.Name)}
        local_from_obj = _derived_from(fn, 'obj')
        dep = bool(names & ({'obj'} | local_from_obj))
        n += 1
        if dep:
            ctx.ob('C20.R1', f'infer_hint:return:{norm(r.value)[:40]}', m.where(r), 'the returned hint is computed from the object', True)
            continue
        ok = norm(r.value) in ('object', 'Any')
        ctx.ob('C20.R1', f'infer_hint:return:{norm(r.value)[:40]}', m.where(r),
               'an input-independent result accepts every object', ok,
               f'`return {norm(r.value)}` is returned for self-referential containers: it is a plain class that the '
               f'container is not an instance of, so is_bearable(obj, infer_hint(obj)) is False')
    ctx.floor('C20.R1', n, 5, 'returns of infer_hint')

    # ---- R2 ----------------------------------------------------------------------
    ctx.rule('C20.R2', 'every hint_factory= of the protocol finite-state machine resolves to a collections.abc / '
             'beartype.typing protocol alias, never to a concrete builtin type (deviance among sibling nodes): a '
             'concrete factory rejects other implementations of the same protocol')
    _fsm(ctx)

    # ---- R3 ----------------------------------------------------------------------
    ctx.rule('C20.R3', 'recursion guard: infer_hint tests id(obj) against the seen-set before any other work; the item '
             'inferers extend the seen-set with id(obj) before recursing and every recursive infer_hint(…) call '
             'passes that set')
    first = next((s for s in fn.body if not (isinstance(s, ast.Expr) and isinstance(s.value, ast.Constant))), None)
    ok = isinstance(first, ast.If) and norm(first.test) == f'id(obj) in {SEEN}' and isinstance(first.body[-1], ast.Return)
    ctx.ob('C20.R3', 'infer_hint:guard-first', m.where(first or fn), 'the recursion guard is the first statement', ok,
           norm(first.test) if isinstance(first, ast.If) else type(first).__name__)
    im = repo.mod(ITEMS)
    top = im.defs.get('infer_hint_collection_items')
    ctx.require(top is not None, 'anchor vanished: infer_hint_collection_items')
    # (the seen-set handed to the recursive calls is decided by the interpretation of the item inferer: R5 / _items_cover)
    n = 0
    for mn in (ITEMS, ABC, BUILTIN):
        mod = repo.mod(mn)
        for c in ast.walk(mod.tree):
            if isinstance(c, ast.Call) and dotted(c.func) == 'infer_hint':
                n += 1
                kw = {k.arg: norm(k.value) for k in c.keywords if k.arg}
                star = any(k.arg is None for k in c.keywords)
                ok = kw.get(SEEN) == SEEN or star
                ctx.ob('C20.R3', f'recursive-call:{mn.split(".")[-1]}:{c.lineno and norm(c.args[0])[:30] if c.args else norm(c)[:30]}',
                       mod.where(c), 'a recursive infer_hint call passes the seen-set', ok, norm(c)[:100])
    ctx.floor('C20.R3', n, 6, 'recursive infer_hint calls')

    # ---- R4 ----------------------------------------------------------------------
    ctx.rule('C20.R4', 'every builtin collection type the inferer maps to a subscriptable factory has a sign that the '
             'type-checker supports deeply or by origin isinstance')
    bm = repo.mod(BUILTIN)
    facs = {}
    # the builtin-type → factory table, by role: the dictionary display of names to names in the inference package
    # (wherever it lives: the inferer module or a data module next to it)
    pkg = BUILTIN.rsplit('.', 1)[0]
    for mn_, m_ in sorted(repo.modules.items()):
        if not mn_.startswith(pkg):
            continue
        for nm, sts in m_.assigns.items():
            for st in sts:
                v = getattr(st, 'value', None)
                if isinstance(v, ast.Dict) and len(v.keys) >= 8 and all(isinstance(k, ast.Name) and isinstance(x, ast.Name)
                                                                       for k, x in zip(v.keys, v.values)):
                    bm = m_
                    for k, val in zip(v.keys, v.values):
                        facs[k.id] = val.id
    deep = ctx.folder.const('beartype._data.hint.sign.datahintsignset', 'HINT_SIGNS_SUPPORTED_DEEP')
    orig = ctx.folder.const('beartype._data.hint.sign.datahintsignset', 'HINT_SIGNS_ORIGIN_ISINSTANCEABLE')
    have = {(s.args[0] if s.args else s.get('name')) for s in (deep | orig)}
    for cls_name, fac in sorted(facs.items()):
        ctx.ob('C20.R4', f'builtin-factory:{cls_name}->{fac}', bm.where(bm.tree.body[0]),
               f'hints built from the {fac} factory are checkable (a sign of that name is supported)', fac in have,
               f'no supported sign named {fac}')
    ctx.floor('C20.R4', len(facs), 8, 'builtin collection factories')
    # arity: the item inferer subscripts a factory with key and value hints iff the builtin type is a Mapping
    # (Counter: key only), with one item hint otherwise; that number must be one the type-checker accepts for
    # the sign of that name (folded HINT_SIGN_ORIGIN_ISINSTANCEABLE_TO_ARGS_LEN_RANGE)
    rng = ctx.folder.const('beartype._data.hint.sign.datahintsignmap', 'HINT_SIGN_ORIGIN_ISINSTANCEABLE_TO_ARGS_LEN_RANGE')
    by_name = {(k.args[0] if getattr(k, 'args', None) else str(k)): v for k, v in rng.items()}
    MAPPING_TYPES = {'dict', 'ChainMapType', 'CounterType', 'defaultdict', 'OrderedDict', 'DefaultDictType', 'OrderedDictType'}
    for cls_name, fac in sorted(facs.items()):
        r = by_name.get(fac)
        if r is None:
            continue
        n_args = (1 if fac == 'Counter' else 2) if cls_name in MAPPING_TYPES else (2 if fac == 'Tuple' else 1)
        ok = n_args in r
        ctx.ob('C20.R4', f'builtin-factory-arity:{cls_name}->{fac}', bm.where(bm.tree.body[0]),
               f'{fac} is subscripted by the inferer with a number of child hints the type-checker accepts', ok,
               f'the inferer subscripts {fac} with {n_args} child hint(s) for {cls_name} objects ({cls_name} is '
               f'{"" if cls_name in MAPPING_TYPES else "not "}a Mapping); the checker requires {list(r)}')

    # ---- R5 ----------------------------------------------------------------------
    ctx.rule('C20.R5', 'the inferred item hint covers every item, decided by interpreting infer_hint_collection_items over '
             'abstract collections (sequence, non-sequence collection, mapping, Counter, root tuple; 1–3 items) × strategy: '
             'under On the factory is subscripted with the union of the hints inferred for every item (every key and every '
             'value; every position of a short root tuple); under O1 with the hint of one item; an empty collection yields '
             'the bare factory')
    _items_cover(ctx)
    from .c14 import repr_dedup
    repr_dedup(ctx, 'C20.R6')


def _derived_from(fn, root: str) -> set:
    out = {root}
    changed = True
    while changed:
        changed = False
        for a in walk_shallow(fn):
            if isinstance(a, ast.Assign) and isinstance(a.targets[0], ast.Name) and a.targets[0].id not in out:
                if any(isinstance(x, ast.Name) and x.id in out for x in ast.walk(a.value)):
                    out.add(a.targets[0].id)
                    changed = True
            if isinstance(a, ast.For) and isinstance(a.target, ast.Name) and a.target.id not in out:
                out.add(a.target.id)     # loop variables over inferers applied to obj
                changed = True
    return out


def _items_cover(ctx):
    from sa.fold import AObj, FuncVal, Sym, _Abort, _Raise, _call_function
    from sa.gen import AConf
    from . import _gen
    repo = ctx.repo
    F = _gen.engines(ctx)[0].f
    im = repo.mod(ITEMS)
    fn = F.const(ITEMS, 'infer_hint_collection_items')
    ctx.require(isinstance(fn, FuncVal), 'anchor vanished: infer_hint_collection_items')

    class _Item(AObj):
        def __init__(self, what):
            self.what = what
            # items 0 and 1 are instances of one type (with different contents), item 2 of another
            self._abstract_type = 'type-B' if what.endswith(' 2') else 'type-A'

        def __repr__(self):
            return f'<{self.what}>'

    class _Fac(AObj):
        def __init__(self, name):
            self.name = name

        def __getitem__(self, args):
            return ('subscripted', self.name, args)

        def __repr__(self):
            return self.name

    class _Col(AObj):
        def __init__(self, kind, n):
            self.kind, self.n = kind, n
            self.elems = [_Item(f'item {i}') for i in range(n)]
            self.vals = [_Item(f'value {i}') for i in range(n)]

        def __len__(self):
            return self.n

        def __bool__(self):
            return self.n > 0

        def __iter__(self):
            return iter(self.elems)

        def __getitem__(self, i):
            if self.kind == 'keyed-collection':
                # addressed by its items (a user mapping that is not a Mapping): an integer position is not a key
                raise _Raise('KeyError', f'{self!r}[{i!r}]')
            return self.elems[i]

        def items(self):
            return list(zip(self.elems, self.vals))

        def __repr__(self):
            return f'<{self.kind} of {self.n}>'
    saved_stubs, saved_i, saved_b = dict(F.stubs), F.isinstance_hook, F.builtin_hook
    seen_sets = []

    def infer_stub(e, a, k):
        seen_sets.append(k.get('__beartype_obj_ids_seen__', 'NOT PASSED'))
        return ('hint-of', k.get('obj', a[0] if a else None))
    F.stubs['beartype.bite._infermain.infer_hint'] = infer_stub
    F.stubs['beartype._util.hint.pep.proposal.pep484.pep484604union.make_hint_pep484604_union'] = lambda e, a, k: ('union', frozenset(a[0]))
    F.stubs['beartype._util.hint.pep.proposal.pep646.pep484585646tuple.make_hint_pep484585_tuple_fixed'] = lambda e, a, k: ('tuple-fixed', tuple(a[0]))
    F.stubs['beartype._util.kind.integer.utilintget.get_integer_pseudorandom_signed_32bit'] = lambda e, a, k: 7
    TUPLE, COUNTER, LIST, SET, DICT = _Fac('Tuple'), _Fac('Counter'), _Fac('List'), _Fac('Set'), _Fac('Dict')
    olds = [(n_, F.patch_global(ITEMS, n_, v_)) for n_, v_ in (('Tuple', TUPLE), ('Counter', COUNTER))]

    def ih(obj, c):
        r = repr(c)
        if isinstance(obj, _Col):
            if 'Sequence' in r:
                return obj.kind in ('sequence', 'tuple')
            if 'Mapping' in r:
                return obj.kind in ('mapping', 'counter')
            return True
        if isinstance(obj, str) and obj.startswith('TYPE:'):
            return True
        if isinstance(obj, AConf):
            return True
        return saved_i(obj, c) if saved_i else None

    def bh(name, args, kw):
        if name == 'issubclass' and args and isinstance(args[0], str) and args[0].startswith('TYPE:'):
            return ('Mapping' in repr(args[1])) == (args[0] in ('TYPE:mapping', 'TYPE:counter'))
        if name == 'id' and args and isinstance(args[0], AObj):
            return id(args[0])
        if name == 'hasattr' and len(args) == 2 and isinstance(args[0], _Col) and isinstance(args[1], str):
            return hasattr(_Col, args[1]) and not (args[1] == '__getitem__' and args[0].kind == 'collection')
        if name == 'type' and len(args) == 1 and isinstance(args[0], _Item):
            return args[0]._abstract_type
        if name in ('len', 'bool', 'iter', 'next') and args and isinstance(args[0], _Col):
            return {'len': len, 'bool': bool, 'iter': lambda c: tuple(c), 'next': next}[name](args[0])
        if name == 'next' and args and isinstance(args[0], (tuple, list)) and args[0]:
            return args[0][0]
        if name == 'iter' and args and isinstance(args[0], (tuple, list)):
            return tuple(args[0])
        if name in ('set', 'frozenset', 'tuple', 'list') and args and isinstance(args[0], (tuple, list, set, frozenset)):
            return {'set': set, 'frozenset': frozenset, 'tuple': tuple, 'list': list}[name](args[0])
        return saved_b(name, args, kw) if saved_b else NotImplemented
    F.isinstance_hook, F.builtin_hook = ih, bh
    cenum = repo.mod('beartype._conf.confenum')
    ON = F.eval_in(cenum, ast.parse('BeartypeStrategy.On', mode='eval').body)
    O1 = F.eval_in(cenum, ast.parse('BeartypeStrategy.O1', mode='eval').body)
    n = 0
    try:
        for kind, fac in (('sequence', LIST), ('collection', SET), ('keyed-collection', SET), ('mapping', DICT), ('counter', COUNTER), ('tuple', TUPLE)):
            for size in (0, 1, 2, 3):
                for sname, strat in (('On', ON), ('O1', O1)):
                    for nested in ((False, True) if kind == 'tuple' else (False,)):
                        col = _Col(kind, size)
                        del seen_sets[:]
                        seen = frozenset({12345}) if nested else frozenset()
                        try:
                            out = _call_function(F, fn, [], dict(obj=col, hint_factory=fac, conf=AConf(strategy=strat),
                                                                 __beartype_obj_ids_seen__=seen, origin_type=f'TYPE:{kind}'), 1)
                        except _Raise as ex:
                            n += 1
                            ctx.ob('C20.R5', f'items:{kind}{"(nested)" if nested else ""}:{size}-items:{sname}', im.where(fn.node),
                                   f'the items of a {kind} of {size} item(s) are inferred without an exception', False, f'raises {ex}')
                            continue
                        except _Abort as ex:
                            ctx.require(False, f'cannot interpret infer_hint_collection_items ({kind}, {size} items, {sname}): {ex}')
                        n += 1
                        if size:
                            bad_seen = [x for x in seen_sets if not (isinstance(x, (set, frozenset)) and id(col) in x and set(seen) <= set(x))]
                            ctx.ob('C20.R3', f'recursion-guard:seen-set-extended:{kind}{"(nested)" if nested else ""}:{size}-items:{sname}',
                                   im.where(fn.node), 'every recursive infer_hint call of the item inferer receives the seen-set '
                                   'extended by the id of the collection being inferred', bool(seen_sets) and not bad_seen,
                                   f'{len(seen_sets)} recursive calls; seen-sets passed: {bad_seen[:2]} (collection id {id(col)}, inherited {set(seen)})')
                        H = lambda x: ('hint-of', x)
                        every = frozenset(H(x) for x in col.elems)
                        everyv = frozenset(H(x) for x in col.vals)

                        def covers(h, whole, one_of):
                            # the hint of a single item, or the union of the hints of all
                            if sname == 'On' or size == 1:
                                return h == ('union', whole) or (len(whole) == 1 and h in whole)
                            return h in one_of
                        if size == 0:
                            ok, want = out is fac, 'the bare factory'
                        elif kind == 'tuple' and not nested:
                            ok, want = out == ('tuple-fixed', tuple(H(x) for x in col.elems)), 'a fixed-length tuple hint of every position'
                        elif kind in ('mapping', 'counter'):
                            args = out[2] if isinstance(out, tuple) and out[:2] == ('subscripted', fac.name) else None
                            if kind == 'counter':
                                ok = args is not None and covers(args, every, every)
                            else:
                                ok = isinstance(args, tuple) and len(args) == 2 and covers(args[0], every, every) and covers(args[1], everyv, everyv)
                            want = 'the factory subscripted by the hints of every key' + ('' if kind == 'counter' else ' and every value')
                        else:
                            args = out[2] if isinstance(out, tuple) and out[:2] == ('subscripted', fac.name) else None
                            item_h = args[0] if (kind == 'tuple' and isinstance(args, tuple) and len(args) == 2) else args
                            ok = args is not None and covers(item_h, every, every) and (kind != 'tuple' or args[1] is Ellipsis or repr(args[1]) == 'Ellipsis')
                            want = 'the factory subscripted by the hints of every item'
                        if sname == 'O1' and size > 1 and not (kind == 'tuple' and not nested):
                            want = want.replace('every', 'one')
                        ctx.ob('C20.R5', f'items:{kind}{"(nested)" if nested else ""}:{size}-items:{sname}', im.where(fn.node),
                               f'a {kind} of {size} item(s) under {sname} is hinted as {want}', ok, f'evaluates to {out!r}')
    finally:
        F.isinstance_hook, F.builtin_hook = saved_i, saved_b
        for n_, o_ in olds:
            F.patch_global(ITEMS, n_, o_)
        F.stubs.clear()
        F.stubs.update(saved_stubs)
    ctx.floor('C20.R5', n, 40, 'collection shapes × strategies')


class _KeysDict(dict):
    """A dictionary whose keys() view supports the set algebra the interpreted code applies to it."""

    def keys(self):
        return frozenset(self)


def _fsm(ctx):
    """R2 by interpretation: the protocol state machine is built by interpreting get_finite_state_machine() and walked by
    interpreting the factory inferer over abstract classes given as sets of method names."""
    from sa.fold import AObj, FuncVal, Sym, Unknown, _Abort, _ObjVal, _Raise, _call_function
    from . import _gen
    repo = ctx.repo
    F = _gen.engines(ctx)[0].f
    am = repo.mod(ABC)
    F.interpret_classes |= {f'{ABC}._FiniteStateMachineNode'}
    build = F.const(ABC, 'get_finite_state_machine')
    walk = F.const(ABC, '_infer_hint_factory_collections_abc')
    ctx.require(isinstance(build, FuncVal) and isinstance(walk, FuncVal), 'anchor vanished: the collections.abc state machine')
    olds = [(n_, F.patch_global('beartype._util.py.utilpyversion', n_, True)) for n_ in ('IS_PYTHON_AT_LEAST_3_12',)
            if n_ in F.module_env('beartype._util.py.utilpyversion')]
    saved, saved_i = dict(F.stubs), F.isinstance_hook
    if 'FROZENDICT_EMPTY' in F.module_env(ABC):
        olds.append(('@abc:FROZENDICT_EMPTY', F.patch_global(ABC, 'FROZENDICT_EMPTY', {})))
    try:
        try:
            start = _call_function(F, build, [], {}, 1)
        except (_Abort, _Raise) as ex:
            ctx.require(False, f'cannot interpret get_finite_state_machine: {ex}')
        ctx.require(isinstance(start, _ObjVal) and isinstance(start.attrs.get('nodes_next'), dict),
                    'get_finite_state_machine did not evaluate to a state-machine node')
        # every node with the methods required to reach it
        nodes = []

        def rec(node, need):
            for keys, nxt in node.attrs.get('nodes_next', {}).items():
                req = need | set(keys)
                nodes.append((nxt, req))
                if isinstance(nxt, _ObjVal):
                    rec(nxt, req)
        rec(start, set())
        for nxt, req in nodes:
            fac = nxt.attrs.get('hint_factory') if isinstance(nxt, _ObjVal) else None
            nm = getattr(fac, 'name', repr(fac))
            concrete = isinstance(fac, Sym) and fac.kind == 'builtin'
            ctx.ob('C20.R2', f'fsm-node:hint_factory={nm.split(".")[-1]}', am.where(build.node),
                   'the factory of a protocol node is an abstract protocol', fac is not None and not concrete,
                   f'hint_factory={nm} is the concrete builtin: other implementations of the protocol (dictionary views for Set) '
                   f'are not instances of it')
        ctx.floor('C20.R2', len(nodes), 15, 'state-machine nodes')
        by_name = {getattr(n_.attrs.get('hint_factory'), 'name', '?').split('.')[-1]: (n_, req) for n_, req in nodes}
        # abstract classes: the canonical implementations (exactly the methods the machine requires for that protocol, plus
        # unrelated ones) and partial implementations of a richer protocol
        classes = {}
        for pname, (n_, req) in by_name.items():
            classes[f'a {pname} implementation'] = (set(req) | {'unrelated_method'}, pname)
        for pname in ('Sequence', 'Mapping', 'AbstractSet', 'MutableSequence'):
            if pname in by_name:
                n_, req = by_name[pname]
                some = sorted(req)[:1]
                # a class that shares ONE method with the richer protocol but lacks the others
                base = set(by_name.get('Collection', (None, set()))[1]) if 'Collection' in by_name else set()
                classes[f'a Collection sharing only {some[0]} with {pname}'] = (base | set(some), None)
        # … and implementations of one protocol that also define a single method of a sibling protocol (the exact-match
        # shortcut of the walk misses; the fallback must still require ALL methods of the protocol it picks)
        sib = [p_ for p_ in ('Sequence', 'Mapping', 'AbstractSet', 'Set') if p_ in by_name]
        for p_ in sib:
            for q_ in sib:
                if q_ == p_:
                    continue
                extra = sorted(set(by_name[q_][1]) - set(by_name[p_][1]))
                if extra:
                    classes[f'a {p_} implementation that also defines {extra[0]} of {q_}'] = (set(by_name[p_][1]) | {extra[0]}, p_)
        # … and container classes that also expose their memory (array-likes): the unsubscriptable Buffer protocol must not
        # pre-empt a container protocol, or infer_hint() subscripts Buffer and raises
        if 'Buffer' in by_name:
            extra_b = sorted(set(by_name['Buffer'][1]))
            for p_ in ('Collection', 'Sequence', 'MutableSequence', 'Iterable'):
                if p_ in by_name:
                    classes[f'a {p_} implementation that is also a buffer'] = (set(by_name[p_][1]) | set(extra_b), p_)
        state = {}
        F.stubs['beartype._util.utilobjattr.get_object_method_name_to_value'] = \
            lambda e, a, k: _KeysDict({m_: 'method' for m_ in state['methods']} if (
                k.get('predicate_attr_names_any') is None or state['methods'] & set(k['predicate_attr_names_any'])) else {})
        F.stubs[f'{ABC}.get_finite_state_machine'] = lambda e, a, k: start
        F.isinstance_hook = lambda o, c: True if isinstance(o, str) and o.startswith('CLASS:') else (saved_i(o, c) if saved_i else None)
        n_cls = 0
        for cname, (methods, exact) in sorted(classes.items()):
            state['methods'] = methods
            try:
                out = _call_function(F, walk.node and walk, ['CLASS:' + cname], {}, 1)
            except (_Abort, _Raise) as ex:
                ctx.require(False, f'cannot interpret {walk.qual} for {cname}: {ex}')
            n_cls += 1
            hit = [(n_, req) for n_, req in nodes if n_.attrs.get('hint_factory') is out or n_.attrs.get('hint_factory') == out]
            need = hit[0][1] if hit else None
            sound = out is None or (need is not None and need <= methods)
            ctx.ob('C20.R2', f'fsm-walk:sound:{cname}', am.where(walk.node),
                   'the protocol inferred for a class is one whose required methods the class defines (otherwise the object is '
                   'not an instance of its own inferred hint)', sound,
                   f'class with methods {sorted(methods)} is inferred as {getattr(out, "name", out)!r}, which requires {sorted(need) if need else need}')
            if exact is not None:
                ctx.ob('C20.R2', f'fsm-walk:exact:{cname}', am.where(walk.node),
                       f'a class defining exactly the methods of {exact} is inferred as {exact}',
                       getattr(out, 'name', '?').split('.')[-1] == exact, f'inferred as {getattr(out, "name", out)!r}')
        ctx.require(n_cls >= 15, f'C20.R2: only {n_cls} abstract classes walked')
    finally:
        for n_, o_ in olds:
            if n_.startswith('@abc:'):
                F.patch_global(ABC, n_[5:], o_)
            else:
                F.patch_global('beartype._util.py.utilpyversion', n_, o_)
        F.isinstance_hook = saved_i
        F.stubs.clear()
        F.stubs.update(saved)
