"""T1 — reviewed producers of the ignorable sentinel (rule C02.R4, fail-closed).

key: ``<module>.<function>:<fingerprint of the path condition>`` where the fingerprint
lists the module-level predicates / signs / constants the condition mentions (local names
are dropped, so renaming a variable or re-indenting does not change it) and the number of
negations.  Value: why a hint reaching this producer accepts every object (or is
deliberately unchecked).
"""
T1 = {
    'redmain.reduce_hint:HINT_SANE_IGNORABLE|neg=1':
        'a reducer returned the sentinel: propagation of another entry of this table',
    'redmain.reduce_hint:HINT_IGNORABLE,HintSane,isinstance|neg=1':
        'the fully reduced hint is HINT_IGNORABLE (typing.Any) and the caller did not ask to preserve it',
    'rednonpeptype.<table>:key object':
        'every object is an instance of object',
    'redpep544.reduce_hint_pep544:is_hint_pep544_protocol_supertype|neg=0':
        'bare typing.Protocol carries no runtime constraint',
    'redpep544.reduce_hint_pep544:is_hint_pep544_protocol_supertype|neg=2':
        'Protocol[T]: the origin is the Protocol supertype itself',
    'redpep557.reduce_hint_pep557_descriptor_data_if_able:is_type_pep252_descriptor_data,is_type_pep557_dataclass,isinstance,type|neg=3':
        'dataclass field hinted by a data descriptor whose __get__ has no annotated return: nothing to check against',
    'redpep692.reduce_hint_pep692:ArgKind,ArgKind.VARIADIC_KEYWORD|neg=2':
        '**kwargs: Unpack[TypedDict] is documented as deliberately unchecked (any other parameter kind raises)',
    'redpep484604union.reduce_hint_pep484604_union:|neg=1':
        'bare Union / Optional (no children)',
    'redpep484604union.reduce_hint_pep484604_union:HINT_SANE_IGNORABLE|neg=2':
        'a union with a member that accepts everything accepts everything',
    'redpep484core.reduce_hint_pep484_any:<unconditional>':
        'typing.Any (the reducer is dispatched for HintSignAny only)',
    'redpep484585generic.reduce_hint_pep484585_generic_subbed:Generic,get_hint_pep_origin_or_none|neg=0':
        'Generic[T] carries no runtime constraint',
    'redpep484585generic.reduce_hint_pep484585_generic_unsubbed:Generic|neg=0':
        'bare typing.Generic',
    'redpep484612646typearg.reduce_hint_pep484612646_typearg:HintSignTypeVar,_TYPEARG_RECURSABLE_DEPTH_MAX,is_hint_recursive|neg=1':
        'TypeVar without bound, constraints or default',
    'redpep484612646typearg.reduce_hint_pep484612646_typearg:HintSignPep646TypeVarTupleUnpacked,HintSignTypeVar,_TYPEARG_RECURSABLE_DEPTH_MAX,is_hint_recursive|neg=2':
        'unpacked TypeVarTuple: PEP 646 variadics are deliberately unchecked at run time',
}
