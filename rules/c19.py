"""C19 — is_subhint and TypeHint.

R1  children coherence of the base class (len / iter / index / bool / containment / args);
R2  equality and hash use one key;
R3  no element is both least and greatest (a relation that is true whenever either side is
    one fixed hint cannot be transitive);
R4  singleton construction through the locked cache keyed by the hint, with an uncached
    fallback for unhashable hints;
R5  subclass overrides keep the children views in step.
Reflexivity, transitivity and soundness of is_subhint over all hints are not decided.
"""
from __future__ import annotations

import ast
import re

from sa.astutil import dotted, params_of, methods_of
from sa.flow import walk_shallow
from sa.repo import norm

SUPER = 'beartype.door._cls.doorsuper'


def run(ctx):
    repo = ctx.repo
    m = repo.mod(SUPER)
    cls = m.defs.get('TypeHint')
    ctx.require(isinstance(cls, ast.ClassDef), 'anchor vanished: TypeHint')
    meths = methods_of(cls)

    # ---- R1 ----------------------------------------------------------------------
    ctx.rule('C19.R1', '__len__, __iter__, __getitem__ and __bool__ read _args_wrapped_tuple; __contains__ reads the '
             'frozenset built from that same tuple; args returns the tuple (_args) those wrappers are built from, '
             'element by element')
    for name in ('__len__', '__iter__', '__getitem__', '__bool__'):
        fn = meths.get(name)
        ctx.require(fn is not None, f'anchor vanished: TypeHint.{name}')
        attrs = {x.attr for x in ast.walk(fn) if isinstance(x, ast.Attribute) and dotted(x.value) == 'self'}
        ctx.ob('C19.R1', f'TypeHint.{name}:reads-wrapped-tuple', m.where(fn), f'{name} is a view of _args_wrapped_tuple',
               attrs == {'_args_wrapped_tuple'}, f'reads {sorted(attrs)}')
    fn = meths['__contains__']
    attrs = {x.attr for x in ast.walk(fn) if isinstance(x, ast.Attribute) and dotted(x.value) == 'self'}
    ctx.ob('C19.R1', 'TypeHint.__contains__:reads-frozenset', m.where(fn), 'containment uses _args_wrapped_frozenset',
           attrs == {'_args_wrapped_frozenset'}, f'reads {sorted(attrs)}')
    fs = meths.get('_args_wrapped_frozenset')
    ok = fs is not None and any(norm(r.value) == 'frozenset(self._args_wrapped_tuple)' for r in walk_shallow(fs) if isinstance(r, ast.Return))
    ctx.ob('C19.R1', 'TypeHint._args_wrapped_frozenset:from-same-tuple', m.where(fs or cls),
           'the frozenset is built from _args_wrapped_tuple', ok, '')
    wt = meths.get('_args_wrapped_tuple')
    rets = [r for r in walk_shallow(wt) if isinstance(r, ast.Return)] if wt else []
    ok = len(rets) == 1 and norm(rets[0].value) in ('tuple((TypeHint(hint_child) for hint_child in self._args))',
                                                   'tuple(TypeHint(hint_child) for hint_child in self._args)')
    ctx.ob('C19.R1', 'TypeHint._args_wrapped_tuple:elementwise-from-args', m.where(wt or cls),
           'the wrapped tuple has one wrapper per element of _args', ok or (len(rets) == 1 and isinstance(rets[0].value, ast.Call)
           and dotted(rets[0].value.func) == 'tuple' and isinstance(rets[0].value.args[0], ast.GeneratorExp)
           and norm(rets[0].value.args[0].generators[0].iter) == 'self._args' and not rets[0].value.args[0].generators[0].ifs),
           norm(rets[0].value)[:100] if rets else '')
    ar = meths.get('args')
    ok = ar is not None and any(norm(r.value) == 'self._args' for r in walk_shallow(ar) if isinstance(r, ast.Return))
    ctx.ob('C19.R1', 'TypeHint.args:returns-_args', m.where(ar or cls), 'args is the tuple the wrappers are built from', ok, '')

    # ---- R2 ----------------------------------------------------------------------
    ctx.rule('C19.R2', 'contradiction rule: the relation decided by __eq__ and the key hashed by __hash__ must coincide '
             '(objects that compare equal must hash equal)')
    eq, hs = meths.get('__eq__'), meths.get('__hash__')
    ctx.require(eq is not None and hs is not None, 'anchor vanished: TypeHint.__eq__/__hash__')
    eq_calls = {dotted(c.func) for c in walk_shallow(eq) if isinstance(c, ast.Call)}
    ie = meths.get('_is_equal')
    rel = norm([r for r in walk_shallow(ie) if isinstance(r, ast.Return)][0].value) if ie else ''
    hkey = norm([r for r in walk_shallow(hs) if isinstance(r, ast.Return)][0].value)
    structural_eq = 'self._hint == other._hint' in rel or 'self._hint is other._hint' in rel
    ctx.ob('C19.R2', 'TypeHint.__eq__/__hash__:one-key', m.where(eq),
           '__eq__ compares what __hash__ hashes', structural_eq and hkey == 'hash(self._hint)',
           f'__eq__ decides `{rel}` (mutual subhint), __hash__ returns `{hkey}`: List[int] and list[int] compare equal '
           f'and hash differently')

    # ---- R3 ----------------------------------------------------------------------
    ctx.rule('C19.R3', 'is_subhint must not return True merely because either side is one fixed hint: an element that '
             'is below and above everything makes the relation non-transitive on any two incomparable hints')
    sub = meths.get('is_subhint')
    ctx.require(sub is not None, 'anchor vanished: TypeHint.is_subhint')
    ret = [r for r in walk_shallow(sub) if isinstance(r, ast.Return)][-1].value
    disj = [norm(v) for v in ret.values] if isinstance(ret, ast.BoolOp) and isinstance(ret.op, ast.Or) else [norm(ret)]
    both = [d for d in disj if d.endswith(' is Any')]
    sides = {d.split('.')[0] for d in both}
    ctx.ob('C19.R3', 'TypeHint.is_subhint:top-and-bottom', m.where(sub),
           'no hint is unconditionally both a subhint and a superhint of every hint', not ({'self', 'other'} <= sides),
           f'`{" or ".join(both)}` short-circuits: is_subhint(int, Any) and is_subhint(Any, str) hold although '
           f'is_subhint(int, str) does not')

    # ---- R4 ----------------------------------------------------------------------
    ctx.rule('C19.R4', 'TypeHint(h) goes through the locked cache keyed by the hint (cache_or_get_cached_func_return_'
             'passed_arg with key=hint) and unhashable hints fall back to an uncached wrapper (except TypeError)')
    typehint_cache(ctx, 'C19.R4')
    um = repo.mod('beartype._util.cache.map.utilmapunbounded')
    cf = repo.find_def(um.name, 'CacheUnboundedStrong.cache_or_get_cached_func_return_passed_arg')
    ok = any(isinstance(t, ast.Try) and any(dotted(h.type) == 'TypeError' and any(
        isinstance(r, ast.Return) and isinstance(r.value, ast.Call) and dotted(r.value.func) == 'value_factory' for r in ast.walk(h))
        for h in t.handlers) for t in walk_shallow(cf))
    ctx.ob('C19.R4', 'cache:unhashable-fallback', um.where(cf), 'an unhashable key yields an uncached value instead of an error', ok, '')

    # ---- R5 ----------------------------------------------------------------------
    ctx.rule('C19.R5', 'sibling cross-check over the TypeHint subclasses: a subclass that overrides _args_wrapped_tuple '
             'must still produce one wrapper per element of self._args (or override args / _make_args consistently); '
             'otherwise len(t) / iteration disagree with t.args')
    n = 0
    for mn, mod in sorted(repo.modules.items()):
        if not mn.startswith('beartype.door._cls.pep'):
            continue
        for c in [x for x in mod.tree.body if isinstance(x, ast.ClassDef)]:
            ms = methods_of(c)
            if '_args_wrapped_tuple' not in ms:
                continue
            n += 1
            fn = ms['_args_wrapped_tuple']
            rets = [r for r in walk_shallow(fn) if isinstance(r, ast.Return) and r.value is not None]
            elementwise = True
            why = ''
            local_tuples = {}
            for a in walk_shallow(fn):
                if isinstance(a, (ast.Assign, ast.AnnAssign)) and a.value is not None:
                    t = a.targets[0] if isinstance(a, ast.Assign) else a.target
                    if isinstance(t, ast.Name):
                        local_tuples.setdefault(t.id, []).append(a.value)
            def ok_value(v, depth=0):
                txt = norm(v)
                if txt in ('super()._args_wrapped_tuple',):
                    return True
                if isinstance(v, ast.Call) and dotted(v.func) == 'tuple' and v.args and isinstance(v.args[0], ast.GeneratorExp) \
                        and norm(v.args[0].generators[0].iter) in ('self._args', 'args') and not v.args[0].generators[0].ifs:
                    return True
                if isinstance(v, ast.Name) and depth < 3 and v.id in local_tuples:
                    return all(ok_value(x, depth + 1) for x in local_tuples[v.id])
                return False
            for r in rets:
                if not ok_value(r.value):
                    elementwise = False
                    why = f'returns `{norm(r.value)[:60]}`, not one wrapper per element of self._args'
            ctx.ob('C19.R5', f'{c.name}._args_wrapped_tuple:in-step-with-args', mod.where(fn),
                   f'{c.name} keeps len(self) == len(self.args)', elementwise, why)
    ctx.floor('C19.R5', n, 3, 'subclasses overriding _args_wrapped_tuple')

    _subhint_soundness(ctx, repo)


# TypeHint subclasses all of whose instances wrap hints of one fixed origin type: testing isinstance(branch, K)
# for such a K establishes that the origins are compatible
ORIGIN_FIXED = {
    'TupleFixedTypeHint': 'tuple', 'TupleVariableTypeHint': 'tuple', 'CallableTypeHint': 'collections.abc.Callable',
}
# subclasses whose arguments are not child hints that could all be ignorable (validators, literal values, positional
# structure): the inherited "all children ignorable" test must be overridden, with the value given
ARGS_IGNORABLE = {
    'AnnotatedTypeHint': (False, 'metadata (validators) are not hints; Annotated[object, V] is not equivalent to object'),
    'LiteralTypeHint': (False, 'literal values are not hints'),
    'TupleFixedTypeHint': (False, 'tuple[()] / tuple[Any, Any] constrain the length'),
    'AnyTypeHint': (True, 'Any has no arguments'),
    'ClassTypeHint': (True, 'an unsubscripted class has no arguments'),
}


from sa.astutil import path_guards as _guards


def _subhint_soundness(ctx, repo):
    ctx.rule('C19.R6', 'soundness obligation of every _is_subhint_branch override: a result that can be true is only '
             'produced after origin compatibility was established — the value returned contains '
             'issubclass(self._origin, branch._origin), or the return is dominated by that test, by '
             'isinstance(branch, K) for a K whose instances all have one fixed origin (table), or it delegates to '
             'another is_subhint / comparison of wrapped hints')
    n = 0
    classes = {}
    for mn, m in sorted(repo.modules.items()):
        if not mn.startswith('beartype.door._cls'):
            continue
        for c in [x for x in m.tree.body if isinstance(x, ast.ClassDef)]:
            classes[c.name] = (m, c)
    for cname, (m, c) in sorted(classes.items()):
        fn = next((f for f in c.body if isinstance(f, ast.FunctionDef) and f.name == '_is_subhint_branch'), None)
        if fn is None or cname in ('UnionTypeHint',):
            continue
        bp = fn.args.args[1].arg if len(fn.args.args) > 1 else 'branch'
        origin = f'issubclass(self._origin, {bp}._origin)'
        for r in [x for x in walk_shallow(fn) if isinstance(x, ast.Return) and x.value is not None]:
            v = r.value
            if isinstance(v, ast.Constant) and v.value is False:
                continue
            n += 1
            guards = _guards(r, fn)
            txt = norm(v)

            # the path condition and the returned conjunction as a set of literals (negations pushed inwards by De Morgan)
            lits = set()
            for g in list(guards) + [txt]:
                lits |= _literals(g)
            ok = origin in lits or any(origin in l and not l.startswith('not ') for l in lits)
            why = ''
            if not ok:
                if any(f'isinstance({bp}, {K})' in lits for K in ORIGIN_FIXED):
                    ok = True       # a class test that fixes the origin
                if not ok and any(('.is_subhint(' in l or '._is_subhint' in l) and not l.startswith('not ') for l in lits):
                    ok = True       # delegation to the wrapped hint's own comparison (in the guards or in the result)
                if not ok and any(re.search(r'^self\.\w+ <= |^\w+\.\w+ >= self\.', l) for l in lits):
                    ok = True       # … spelled as a comparison of wrappers (a <= b is a.is_subhint(b))
                if not ok and cname == 'TypeHint':
                    ok = any('issubclass(self._origin' in l and not l.startswith('not ') for l in lits)
                why = f'returns `{txt[:70]}` under {guards}: no origin test and no class test that fixes the origin'
            ctx.ob('C19.R6', f'{cname}._is_subhint_branch:return:{txt[:50]}', m.where(r),
                   'a possibly-true result is produced only after origin compatibility was established', ok, why)
    ctx.floor('C19.R6', n, 8, 'possibly-true returns of _is_subhint_branch overrides')

    ctx.rule('C19.R7', 'the "arguments ignorable" flag (which makes a hint equivalent to its bare origin in is_subhint) is '
             'overridden with the value of the reasoned table by every subclass whose arguments are not child hints')
    for cname, (want, why) in sorted(ARGS_IGNORABLE.items()):
        ctx.require(cname in classes, f'anchor vanished: beartype.door class {cname}')
        m, c = classes[cname]
        fn = next((f for f in c.body if isinstance(f, ast.FunctionDef) and f.name == '_is_args_ignorable'), None)
        rets = [norm(r.value) for r in walk_shallow(fn) if isinstance(r, ast.Return)] if fn is not None else []
        ctx.ob('C19.R7', f'{cname}._is_args_ignorable', m.where(fn or c),
               f'{cname}._is_args_ignorable is {want} ({why})', rets == [str(want)],
               f'returns {rets}' if fn is not None else 'not overridden: inherits "every wrapped child is ignorable", so '
               f'e.g. every hint is a subhint of Annotated[object, <validator>]')

    ctx.rule('C19.R8', 'every _is_equal override (the base decides equality as mutual is_subhint) compares children only '
             'between wrappers of the same kind of hint: a possibly-true result is dominated by identity of the hint '
             'signs (or an isinstance test for its own class), except the both-arguments-ignorable case, which compares '
             'origins — hints that share an origin but not a sign (tuple[int, ...] vs tuple[int]) are not equal')
    n = 0
    for cname, (m, c) in sorted(classes.items()):
        fn = next((f for f in c.body if isinstance(f, ast.FunctionDef) and f.name == '_is_equal'), None)
        if fn is None or cname == 'TypeHint':
            continue
        op = fn.args.args[1].arg if len(fn.args.args) > 1 else 'other'
        for r in [x for x in walk_shallow(fn) if isinstance(x, ast.Return) and x.value is not None]:
            if isinstance(r.value, ast.Constant) and r.value.value is False:
                continue
            n += 1
            guards = _guards(r, fn)
            txt = norm(r.value)
            sign = f'self._hint_sign is not {op}._hint_sign'
            ok = any(g.startswith('not (') and sign in g for g in guards) or f'isinstance({op}, {cname})' in txt \
                or any(f'isinstance({op}, {cname})' in g and not g.startswith('not (') for g in guards) \
                or (any('_is_args_ignorable' in g and not g.startswith('not (') for g in guards) and '_origin' in txt)
            ctx.ob('C19.R8', f'{cname}._is_equal:return:{txt[:50]}', m.where(r),
                   'a possibly-true equality is decided between wrappers of the same sign / class', ok,
                   f'returns `{txt[:70]}` under {guards}')
    ctx.floor('C19.R8', n, 2, 'possibly-true returns of _is_equal overrides')

    _base_branch(ctx)
    _union_subhint(ctx)
    _eq_without_hash(ctx)


def typehint_cache(ctx, RULE):
    """TypeHint(h) is looked up in a locked cache keyed by the hint itself (shared with C03.R5: a wrapper obtained for one
    hint must check against that hint)."""
    repo = ctx.repo
    mm = repo.mod('beartype.door._cls.doormeta')
    call = repo.find_def(mm.name, '_TypeHintMetaclass.__call__', required=False)
    if call is None:
        for c in [n for n in mm.tree.body if isinstance(n, ast.ClassDef)]:
            for f in c.body:
                if isinstance(f, ast.FunctionDef) and f.name == '__call__':
                    call = f
    ctx.require(call is not None, 'anchor vanished: TypeHint metaclass __call__')
    # the cache lookup: a call of <cache>.cache_or_get_cached_func_return_passed_arg, directly or through a module-level
    # alias of that bound method; arguments by keyword or by position (positions read off the method's definition)
    METH = 'cache_or_get_cached_func_return_passed_arg'
    um = repo.mod('beartype._util.cache.map.utilmapunbounded')
    mdef = repo.find_def(um.name, f'CacheUnboundedStrong.{METH}')
    pnames = [p for p in params_of(mdef)[1:]]
    aliases = {}
    for nm_, sts in mm.assigns.items():
        for st in sts:
            v = getattr(st, 'value', None)
            if isinstance(v, ast.Attribute) and v.attr == METH and isinstance(v.value, ast.Name):
                aliases[nm_] = v.value.id
    cs = []
    for c in walk_shallow(call):
        if not isinstance(c, ast.Call):
            continue
        if isinstance(c.func, ast.Attribute) and c.func.attr == METH and isinstance(c.func.value, ast.Name):
            cs.append((c, c.func.value.id))
        elif isinstance(c.func, ast.Name) and c.func.id in aliases:
            cs.append((c, aliases[c.func.id]))
    hp = params_of(call)[1] if len(params_of(call)) > 1 else 'hint'
    bound = {}
    if len(cs) == 1:
        c0 = cs[0][0]
        bound = {pnames[i]: norm(a) for i, a in enumerate(c0.args) if i < len(pnames)}
        bound.update({k.arg: norm(k.value) for k in c0.keywords})
    ok = len(cs) == 1 and bound.get('key') == hp and bound.get('arg') == hp
    ctx.ob(RULE, 'TypeHint.__call__:cached-by-hint', mm.where(call), 'the wrapper cache is keyed by the hint itself', ok,
           norm(cs[0][0])[:120] if cs else 'no cache call')
    # the cache object, whatever it is called and wherever it is defined (here or in a sibling module)
    tab = []
    if cs:
        nm = cs[0][1]
        r = repo.resolve_name(mm, call, nm)
        dm = repo.modules.get(r.module) if getattr(r, 'module', None) else None
        tab = [(dm, st) for st in (dm.assigns.get(r.name, []) if dm is not None else [])] or [(mm, st) for st in mm.assigns.get(nm, [])]
    ok = bool(tab) and isinstance(tab[-1][1].value, ast.Call) and any(k.arg == 'lock_type' for k in tab[-1][1].value.keywords)
    ctx.ob(RULE, 'wrapper-cache:locked', tab[-1][0].where(tab[-1][1]) if tab else mm.where(call), 'the cache carries its own lock', ok,
           norm(tab[-1][1])[:100] if tab else 'cache definition not found')


def _literals(text: str) -> set:
    """The literals of a condition read as a conjunction, negations pushed inwards (De Morgan); a disjunction that
    cannot be split stays one literal."""
    try:
        e = ast.parse(text, mode='eval').body
    except SyntaxError:
        return {text.strip()}
    out = set()

    def walk(x, neg):
        if isinstance(x, ast.UnaryOp) and isinstance(x.op, ast.Not):
            walk(x.operand, not neg)
        elif isinstance(x, ast.BoolOp) and ((isinstance(x.op, ast.And) and not neg) or (isinstance(x.op, ast.Or) and neg)):
            for v in x.values:
                walk(v, neg)
        else:
            t = ast.unparse(x)
            out.add(f'not {t}' if neg else t)
            if neg and not isinstance(x, ast.BoolOp):
                out.add(f'not ({t})')
    walk(e, False)
    return out


def _base_branch(ctx):
    """R9 by interpretation: TypeHint._is_subhint_branch over abstract wrappers."""
    import itertools
    from sa.fold import AObj, DelegatingAObj, FuncVal, _Abort, _Raise, _call_function
    from rules import _gen
    repo = ctx.repo
    F = _gen.engines(ctx)[0].f
    SUP = 'beartype.door._cls.doorsuper'
    sm = repo.mod(SUP)
    cls = F.const(SUP, 'TypeHint')
    fn = cls.find('_is_subhint_branch')
    ctx.require(isinstance(fn, FuncVal), 'anchor vanished: TypeHint._is_subhint_branch')
    ctx.rule('C19.R9', 'the base subhint test between two subscripted hints, decided by interpreting TypeHint._is_subhint_branch '
             'over abstract wrappers (origins compatible or not × the other\'s arguments ignorable or not × same wrapper class '
             'or not × children: equal arity with every / not every child a subhint, differing arity): it holds only if the '
             'origins are compatible and either the other\'s arguments are ignorable or both have the same class, the same '
             'number of children and every child is a subhint of its counterpart — with differing arity it never holds '
             '(ItemsView[str, int] is not a Collection[str])')

    class _Kid(AObj):
        def __init__(self, ok):
            self.ok = ok

        def is_subhint(self, other):
            return self.ok

    class _W(DelegatingAObj):
        _real_class = cls

        def __init__(self, kind, origin, kids, ignorable=False):
            self.kind, self._origin, self._args_wrapped_tuple, self._is_args_ignorable = kind, origin, tuple(kids), ignorable
            self._hint = f'<{kind}>'

        def __repr__(self):
            return f'<wrapper {self.kind} of {len(self._args_wrapped_tuple)}>'
    saved_b, saved_i = F.builtin_hook, F.isinstance_hook
    state = {}

    def bh(name, args, kw):
        if name == 'issubclass' and len(args) == 2 and all(isinstance(a, str) and a.startswith('ORIGIN') for a in args):
            return state['origin_ok']
        if name == 'type' and len(args) == 1 and isinstance(args[0], _W):
            return ('CLASS', args[0].kind)
        if name == 'len' and args and isinstance(args[0], tuple):
            return len(args[0])
        return saved_b(name, args, kw) if saved_b else NotImplemented

    def ih(o, c):
        if isinstance(o, _W) and isinstance(c, tuple) and c[:1] == ('CLASS',):
            return o.kind == c[1]
        return saved_i(o, c) if saved_i else None
    F.builtin_hook, F.isinstance_hook = bh, ih
    n = 0
    try:
        for origin_ok, ignorable, same_cls in itertools.product((True, False), repeat=3):
            for kname, mine, theirs in (('equal-arity-all-subhints', [True, True], 2), ('equal-arity-one-not', [True, False], 2),
                                        ('fewer-children-than-the-other', [True], 2), ('more-children-than-the-other', [True, True], 1)):
                state['origin_ok'] = origin_ok
                me = _W('A', 'ORIGIN-A', [_Kid(x) for x in mine])
                other = _W('A' if same_cls else 'B', 'ORIGIN-B', [_Kid(True)] * theirs, ignorable)
                raised = out = None
                try:
                    out = _call_function(F, fn, [me, other], {}, 1)
                except _Raise as ex:
                    raised = ex
                except _Abort as ex:
                    ctx.require(False, f'cannot interpret TypeHint._is_subhint_branch: {ex}')
                n += 1
                may = origin_ok and (ignorable or (same_cls and len(mine) == theirs and all(mine)))
                holds = raised is None and bool(out)
                tag = (f'origins-{"compatible" if origin_ok else "incompatible"}:args-{"ignorable" if ignorable else "checked"}:'
                       f'{"same" if same_cls else "other"}-class:{kname}')
                ctx.ob('C19.R9', f'base-branch:{tag}', sm.where(fn.node),
                       'the test holds exactly under origin compatibility and (ignorable arguments or same class, same arity, all '
                       'children subhints)', holds == may or (not may and not holds),
                       f'evaluates to {out!r}' if raised is None else f'raises {raised}')
                if may:
                    ctx.ob('C19.R9', f'base-branch:complete:{tag}', sm.where(fn.node), 'the test holds where it should', holds,
                           f'evaluates to {out!r}' if raised is None else f'raises {raised}')
    finally:
        F.builtin_hook, F.isinstance_hook = saved_b, saved_i
    ctx.floor('C19.R9', n, 32, 'abstract wrapper pairs')


def _union_subhint(ctx):
    """R10 by interpretation: the union wrapper's subhint test over abstract unions whose members may themselves be
    union-like (a bounded or constrained type variable is a union of its bound / constraints)."""
    from sa.fold import AObj, ClassVal, DelegatingAObj, FuncVal, _Abort, _Raise, _call_function
    from rules import _gen
    repo = ctx.repo
    F = _gen.engines(ctx)[0].f
    ctx.rule('C19.R10', 'the union wrapper\'s subhint test, decided by interpreting it over abstract unions whose members are leaves or '
             'union-like wrappers (a bounded type variable wraps its bound as its only branch): whenever it holds, every leaf of '
             'the left side (union-like members expanded) is below some leaf of the right side; and every union is a subhint of '
             'itself, also when a member is union-like (is_subhint(Optional[T], Optional[T]) for T bound to Sequence)')
    # the union wrapper class: the TypeHint subclass that overrides _branches (found by role)
    found = []
    for mn, mod in sorted(repo.modules.items()):
        if not mn.startswith('beartype.door._cls'):
            continue
        for c in [x for x in mod.tree.body if isinstance(x, ast.ClassDef)]:
            names = {f.name for f in c.body if isinstance(f, ast.FunctionDef)}
            if '_branches' in names and '_is_subhint' in names and c.name != 'TypeHint':
                found.append((mn, c))
    ctx.require(len(found) == 1, f'expected one union wrapper class overriding _branches and _is_subhint, found {[c.name for _, c in found]}')
    mn, c = found[0]
    m = repo.mod(mn)
    cls = F.const(mn, c.name)
    fn = cls.find('_is_subhint')
    ctx.require(isinstance(fn, FuncVal), f'anchor vanished: {c.name}._is_subhint')
    LEQ = {('a', 'a'), ('b', 'b'), ('c', 'c'), ('b', 'a')}          # b is a subclass of a; c unrelated

    class _Leaf(AObj):
        def __init__(self, name):
            self.name = name
            self._hint = f'<{name}>'
            self._branches = (self,)

        def is_subhint(self, other):
            # the base test: some *direct* branch of the other side is above this leaf; a union-like branch is not a leaf
            return any(isinstance(b, _Leaf) and (self.name, b.name) in LEQ for b in other._branches)

        def __repr__(self):
            return self.name

    class _U(DelegatingAObj):
        _real_class = cls

        def __init__(self, *branches):
            self._branches = self._args_wrapped_tuple = tuple(branches)
            self._hint = f'<union of {len(branches)}>'

        def is_subhint(self, other):
            return bool(_call_function(F, fn, [self, other], {}, 1))

        def leaves(self):
            return [l for b in self._branches for l in (b.leaves() if isinstance(b, _U) else [b])]

        def __repr__(self):
            return 'U[' + ', '.join(map(repr, self._branches)) + ']'

    def leaves(x):
        return x.leaves() if isinstance(x, _U) else [x]
    saved_i = F.isinstance_hook

    def ih(o, k):
        if isinstance(o, (_U, _Leaf)) and isinstance(k, ClassVal):
            if k is cls:
                return isinstance(o, _U)
            return True if k.name == 'TypeHint' else None
        return saved_i(o, k) if saved_i else None
    F.isinstance_hook = ih
    a, b, c_ = _Leaf('a'), _Leaf('b'), _Leaf('c')
    cases = [
        ('plain:reflexive', _U(a, c_), _U(a, c_)),
        ('plain:member-below-member', _U(b, c_), _U(a, c_)),
        ('plain:member-without-counterpart', _U(a, c_), _U(a, b)),
        ('plain:against-leaf:all-below', _U(a, b), a),
        ('plain:against-leaf:one-not', _U(a, c_), a),
        ('unionlike-member:reflexive', _U(_U(a), c_), _U(_U(a), c_)),
        ('unionlike-member:two-branches:reflexive', _U(_U(a, c_), b), _U(_U(a, c_), b)),
        ('unionlike-member:left-only', _U(_U(b), c_), _U(a, c_)),
        ('unionlike-member:right-only', _U(b, c_), _U(_U(a), c_)),
        ('unionlike-member:bound-not-covered', _U(_U(a), c_), _U(b, c_)),
        ('unionlike-member:against-leaf', _U(_U(b)), a),
        ('unionlike-member:against-leaf:not-below', _U(_U(c_)), a),
    ]
    n = 0
    try:
        for tag, me, other in cases:
            raised = out = None
            try:
                out = _call_function(F, fn, [me, other], {}, 1)
            except _Raise as ex:
                raised = ex
            except _Abort as ex:
                ctx.require(False, f'cannot interpret {c.name}._is_subhint on {me} vs {other}: {ex}')
            n += 1
            ref = all(any((x.name, y.name) in LEQ for y in leaves(other)) for x in leaves(me))
            holds = raised is None and bool(out)
            ctx.ob('C19.R10', f'union-subhint:sound:{tag}', m.where(fn.node),
                   f'{me} <= {other} holds only if every leaf of the left is below some leaf of the right', (not holds) or ref,
                   f'evaluates to {out!r} although {[x.name for x in leaves(me) if not any((x.name, y.name) in LEQ for y in leaves(other))]} '
                   f'has no counterpart')
            if tag.endswith('reflexive'):
                ctx.ob('C19.R10', f'union-subhint:{tag}', m.where(fn.node), f'{me} is a subhint of itself', holds,
                       f'evaluates to {out!r}' if raised is None else f'raises {raised}')
    finally:
        F.isinstance_hook = saved_i
    ctx.floor('C19.R10', n, 12, 'abstract union pairs')


def _eq_without_hash(ctx):
    """R11: a class body that defines __eq__ without __hash__ gets __hash__ = None from Python: its instances are unhashable."""
    repo = ctx.repo
    ctx.rule('C19.R11', 'wrappers that compare equal have equal hashes — in particular they have hashes: every class of the package '
             '(all of beartype/, the TypeHint subclasses among them) whose body defines __eq__ also defines or assigns __hash__; '
             'Python sets __hash__ to None for a class that defines only __eq__, so a TypeHint subclass with a refined __eq__ '
             'makes `child in parent`, set(parent) and dictionaries of wrappers raise TypeError')
    n = k = 0
    for mn, m in sorted(repo.modules.items()):
        for c in [x for x in ast.walk(m.tree) if isinstance(x, ast.ClassDef)]:
            k += 1
            names = {f.name for f in c.body if isinstance(f, (ast.FunctionDef, ast.AsyncFunctionDef))}
            assigned = {t.id for s_ in c.body if isinstance(s_, ast.Assign) for t in s_.targets if isinstance(t, ast.Name)}
            if '__eq__' not in names:
                continue
            n += 1
            ctx.ob('C19.R11', f'eq-with-hash:{mn.rsplit(".", 1)[-1]}.{c.name}', m.where(c), 'a class defining __eq__ defines __hash__',
                   '__hash__' in names | assigned, f'class {c.name} defines __eq__ only: its instances are unhashable')
    ctx.ob('C19.R11', 'eq-with-hash:classes-scanned', 'beartype/door/_cls/doorsuper.py:0', f'{k} classes scanned, {n} define __eq__',
           k >= 150 and n >= 3, f'{k} classes, {n} with __eq__')
